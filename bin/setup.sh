#!/bin/sh
# Builds /verif/.venv: an overlay of the repository's own /venv (dds is installed there in editable mode
# from /repo, so every run imports the current working tree) plus crosshair-tool from the offline wheelhouse.
set -e
V="$(cd "$(dirname "$0")/.." && pwd)"
if [ -x "$V/.venv/bin/python" ] && "$V/.venv/bin/python" -c "import crosshair, z3, dds" 2>/dev/null; then
  exit 0
fi
rm -rf "$V/.venv"
/venv/bin/python -m venv "$V/.venv"
SP="$("$V/.venv/bin/python" -c 'import sysconfig; print(sysconfig.get_paths()["purelib"])')"
echo "import site; site.addsitedir('/venv/lib/python3.12/site-packages')" > "$SP/_verif_overlay.pth"
PIP_NO_INDEX=1 "$V/.venv/bin/pip" install -q --no-index --find-links /opt/veriftools/wheels crosshair-tool
"$V/.venv/bin/python" -c "import crosshair, z3, dds; print('verif venv ready: crosshair', crosshair.__version__, 'z3', z3.get_version_string(), 'dds from', dds.__file__)"
