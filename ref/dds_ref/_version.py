version = "0.13.1"
