from typing import (
    Tuple,
    Dict,
    Optional,
    List,
    NewType,
)

from .structures import (
    FunctionInteractions,
    CanonicalPath,
    FunctionArgContextHash,
)

PythonId = NewType("PythonId", int)


class GlobalContext(object):
    """
    The global context holds caches about from past evaluations.
    """

    def __init__(self):
        self.cached_fun_calls: Dict[
            Tuple[CanonicalPath, FunctionArgContextHash], List[CanonicalPath]
        ] = {}
        # The cached interactions
        # TODO: rethink the global cache, it is currently poorly interacting with variable updates
        self.cached_fun_interactions: Dict[
            Tuple[
                CanonicalPath,
                FunctionArgContextHash,
                Tuple[Tuple[CanonicalPath, PythonId], ...],
            ],
            FunctionInteractions,
        ] = {}


# Set this to None to disable the global context.
# TODO: expose as an option
_global_context: Optional[GlobalContext] = GlobalContext()  # type: ignore
