# from __future__ import annotations

import ast
from collections import deque
import hashlib
import inspect
import logging
import struct
import dataclasses
from collections import OrderedDict
from inspect import Parameter
from pathlib import PurePosixPath
from typing import Tuple, Callable, Any, Dict, List, Optional, NewType, Union, Deque
import datetime

from .structures import CanonicalPath, DDSException, DDSErrorCode
from .structures import PyHash, FunctionArgContext, ArgName
from ._config import get_option

_logger = logging.getLogger(__name__)

HashKey = NewType("HashKey", str)


def dds_hash_commut(i: List[Tuple[HashKey, PyHash]]) -> Optional[PyHash]:
    """
    Takes a dictionary-like structure of keys and values and returns a hash of it with the
    following commutativity property: the hash is stable under permutation of elements
    in the key.

    Returns None if the input is empty
    """
    if not i:
        return None

    def digest(kv: Tuple[HashKey, PyHash]) -> str:
        b = hashlib.sha256(kv[0].encode("utf-8"))
        b.update(kv[1].encode("utf-8"))
        return b.hexdigest()

    assert i
    res = digest(i[0])
    for c in i[1:]:
        _res = int(res, 16) ^ int(digest(c), 16)
        res = "{:x}".format(_res)
    return PyHash(res)


def _algo_str(s: str) -> PyHash:
    return _algo_bytes(s.encode("utf-8"))


def _algo_bytes(b: bytes) -> PyHash:
    return PyHash(hashlib.sha256(b).hexdigest())


def dds_hash(x: Any) -> PyHash:
    """
    Converts a python object to a hash.

    This function does not make use of the general __hash__ function of python:
    * it is meant to offer a more cryptographically stronger solution (full 2^256 space)
    * it is more restricted to the sort of inputs that are expected to be quickly hashed

    The expectation is that all the inputs tend to be primitive types or known structured types
    (named tuples or dataclass types). All other inputs are meant to be ignored unless their
    type has been flagged in an accepted module.

    """
    max_sequence_size: int = get_option("hash.max_sequence_size")

    # Some hints for tracing the offending object.
    trace: Deque[Union[int, str]] = deque()

    def current_path() -> str:
        return ".".join([str(i) if not isinstance(i, str) else i for i in list(trace)])

    def check_len(x: Any) -> None:
        if len(x) > max_sequence_size:
            raise DDSException(
                f"Object of type {type(x)} is a sequence of length {len(x)}. "
                f"Only sequences of length less than {max_sequence_size} are supported. "
                "This behaviour can be adjusted with the 'hash.max_sequence_size' option."
                f" Path hint: <{current_path()}>",
                DDSErrorCode.SEQUENCE_TOO_LONG,
            )

    def _dds_hash(elt: Any, path_item: Union[int, str, None]) -> PyHash:
        if path_item is not None:
            trace.append(path_item)
        res = _dds_hash0(elt)
        if trace:
            trace.pop()
        return res

    def _hash_dict_tuple(k: Any, v: Any) -> str:
        # Supposing for now that any dictionary key is well-behaved with respect to being converted to a string.
        if isinstance(k, str):
            n = k
        else:
            n = str(k)
        return _dds_hash(k, None) + "|" + _dds_hash(v, n)

    def _dds_hash0(elt: Any) -> PyHash:
        if elt is None:
            # TODO: this is not robust to adversarial changes.
            return PyHash(hashlib.sha256("__DDS_NONE__".encode("utf-8")).hexdigest())
        if isinstance(elt, str):
            return _algo_str(elt)
        if isinstance(elt, float):
            return _algo_bytes(struct.pack("!d", elt))
        if isinstance(elt, int):
            if -(2**31) <= elt < 2**31:
                return _algo_bytes(struct.pack("!l", elt))
            # Integers that do not fit the historical 4-byte encoding (timestamps in milliseconds for
            # instance): shortest two's complement encoding behind a marker that is not valid UTF-8,
            # so that it cannot coincide with the encoding of a string, a float or a small integer.
            return _algo_bytes(
                b"\xffint"
                + elt.to_bytes(elt.bit_length() // 8 + 1, "big", signed=True)
            )
        if isinstance(elt, CanonicalPath):
            return _algo_str(repr(elt))
        if isinstance(elt, list):
            check_len(elt)
            return _algo_str(
                "|".join([_dds_hash(y, idx) for (idx, y) in enumerate(elt)])
            )
        if isinstance(elt, tuple):
            check_len(elt)
            return _dds_hash(list(elt), None)
        if isinstance(elt, PurePosixPath):
            return _algo_str(str(elt))
        if isinstance(elt, OrderedDict):
            check_len(elt)
            # Directly using the ordering of the items in the dictionary.
            return _dds_hash([_hash_dict_tuple(k, v) for (k, v) in elt.items()], None)
        if isinstance(elt, dict):
            # Starting from python 3.7 the order of the keys in a dictionary is the order of insertion
            # This code should return reliable results for CPython 3.6 and python 3.7+ (i.e. the overwhelming
            # majority of python interpreters out there).
            # Not going to check for obscure corner cases for now.
            check_len(elt)
            return _dds_hash([_hash_dict_tuple(k, v) for (k, v) in elt.items()], None)
        if dataclasses.is_dataclass(elt):
            names: List[str] = [f.name for f in dataclasses.fields(elt)]
            # TODO: this is not entirely accurate. The error message will show a 'list' type, but it is actually
            # a dataclass.
            check_len(names)
            vals = [_dds_hash(getattr(elt, n), n) for n in names]
            return _dds_hash(
                [_hash_dict_tuple(name, h) for (name, h) in zip(names, vals)], None
            )
        if isinstance(
            elt,
            (
                datetime.datetime,
                datetime.date,
                datetime.time,
                datetime.timedelta,
                datetime.timezone,
                datetime.tzinfo,
            ),
        ):
            # TODO: there may be some confusion because we use the same representation for the object
            # and its string
            return _dds_hash(repr(elt), None)
        msg = (
            f"The type {type(elt)} is currently not supported. The only supported types are "
            f"'well-known' types that are part of the standard data structures in the python library. "
            f"If you think your data type should be supported by DDS, please open a request ticket. "
            f"General Python classes will not be supported since they can carry arbitrary state and "
            f"cannot be easily compared. Consider using a dataclass, a dictionary or a named tuple instead."
        )
        raise DDSException(msg, DDSErrorCode.TYPE_NOT_SUPPORTED)

    return _dds_hash(x, None)


def get_arg_list(
    f: Callable,  # type: ignore
) -> List[str]:
    arg_sig = inspect.signature(f)
    return list(arg_sig.parameters.keys())


def get_arg_ctx(
    f: Callable,  # type: ignore
    args: Tuple[Any, ...],
    kwargs: Dict[str, Any],
) -> FunctionArgContext:
    arg_sig = inspect.signature(f)
    num_args = len(args)
    # _logger.debug(f"get_arg_ctx: {f}: arg_sig={arg_sig} args={args}")
    args_hashes = []
    for (idx, (n, p_)) in enumerate(arg_sig.parameters.items()):
        p: inspect.Parameter = p_
        # _logger.debug(f"get_arg_ctx: {f}: idx={idx} n={n} p={p}")
        if p.kind not in (Parameter.POSITIONAL_OR_KEYWORD, Parameter.VAR_KEYWORD):
            raise NotImplementedError(
                f"Argument type not understood for function {f}: {p.kind} (see "
                f"exact definition in the module {Parameter}). Suggestion: "
                f"your function is probably using complex argument types. Use "
                f"simpler sorts of arguments (no kargs or kwargs)."
                f" The full signature was: {arg_sig}"
            )
        h: Optional[PyHash]
        if idx < num_args:
            # It is a list argument
            # TODO: should it discard arguments of not-whitelisted types?
            # TODO: raise a warning for non-whitelisted objects
            h = dds_hash(args[idx])
        else:
            # Either positional or default argument
            if n in kwargs:
                # positional argument
                h = dds_hash(kwargs[n])
            elif p.default != Parameter.empty:
                # Argument is not provided but it has a default value
                # Use the default argument as an input
                # This assumes that the user does not mutate the argument, which is
                # a warning/errors in most linters.
                # TODO: should it discard arguments of not-whitelisted types?
                # TODO: raise a warning for non-whitelisted objects
                h = dds_hash(p.default or "__none__")
            elif p.kind == Parameter.VAR_KEYWORD:
                # kwargs: for now, just ignored
                h = None
            elif p.kind == Parameter.POSITIONAL_OR_KEYWORD:
                # We are expecting a positional arguments, but no positional arguments
                # was provided. This is a programming error on the user side.
                raise DDSException(
                    f"Missing argument {n} for function {f}. "
                    f"DDS detected that the function {f} is missing the argument "
                    f"{n} of type {p.kind}. This would trigger an error during the "
                    f"execution of the code, aborting."
                )
            else:
                raise NotImplementedError(
                    f"Cannot deal with argument name {n} of function {f}:"
                    f"The argument kind {p.kind} is not understood (see exact definition in "
                    f"the module {Parameter}). Suggestion: your function is probably "
                    f"using non-standard arguments. Use arguments of a simpler sort "
                    f"(no kargs or kwargs). "
                    f"The full signature was: {arg_sig}"
                )
        args_hashes.append((ArgName(n), h))
    return FunctionArgContext(OrderedDict(args_hashes), None)


def get_arg_ctx_ast(
    f: Callable,  # type: ignore
    args: List[ast.AST],
    kwargs: "OrderedDict[str, ast.AST]",
) -> "OrderedDict[ArgName, Optional[PyHash]]":
    """
    Gets the arg context based on the AST.
    """
    arg_sig = inspect.signature(f)
    num_args = len(args)
    # _logger.debug(f"get_arg_ctx: {f}: arg_sig={arg_sig} args={args}")
    args_hashes: List[Tuple[ArgName, Optional[PyHash]]] = []

    def process_arg(node: ast.AST) -> Optional[PyHash]:
        # NameConstant for python 3.5 - 3.7
        if isinstance(node, (ast.Constant, ast.NameConstant)):
            # We can deal with some constant nodes
            default_ob = node.value if node.value is not None else "__none__"
            return dds_hash(default_ob)
        else:
            # Cannot deal with it for the time being
            return None

    for (idx, (n, p_)) in enumerate(arg_sig.parameters.items()):
        p: inspect.Parameter = p_
        # _logger.debug(f"get_arg_ctx: {f}: idx={idx} n={n} p={p}")
        h: Optional[PyHash]
        if p.kind not in (
            Parameter.POSITIONAL_OR_KEYWORD,
            Parameter.VAR_KEYWORD,
            Parameter.VAR_POSITIONAL,
        ):
            raise NotImplementedError(
                f"Argument type not understood for function {f}: {p.kind} (see "
                f"exact definition in the module {Parameter}). Suggestion: "
                f"your function is probably using complex argument types. Use "
                f"simpler sorts of arguments (no kargs or kwargs)."
                f" The full signature was: {arg_sig}"
            )
        if idx < num_args:
            # It is a list argument
            h = process_arg(args[idx])
        else:
            if n in kwargs:
                h = process_arg(kwargs[n])
            elif p.default != Parameter.empty:
                # Argument is not provided but it has a default value
                # Use the default argument as an input
                # This assumes that the user does not mutate the argument, which is
                # a warning/errors in most linters.
                # TODO: should it discard arguments of not-whitelisted types?
                # TODO: raise a warning for non-whitelisted objects
                h = dds_hash(p.default or "__none__")
            else:
                # Do not consider this argument for the time being
                h = None
        args_hashes.append((ArgName(n), h))
    return OrderedDict(args_hashes)
