import json
import logging
import os
import time
from pathlib import PurePath
from typing import Any, Optional, List, Union, Dict
from collections import OrderedDict

from .codec import codec_registry, CodecRegistry
from .structures import (
    PyHash,
    DDSPath,
    DDSException,
    GenericLocation,
    ProtocolRef,
    FileCodecProtocol,
    CodecProtocol,
    DDSErrorCode,
)
from .structures_utils import SupportedTypeUtils as STU

_logger = logging.getLogger(__name__)


# Model:
# /store/blobs/.../ -> the blobs
# /


class Store(object):
    def has_blob(self, key: PyHash) -> bool:
        raise NotImplementedError()

    def fetch_blob(self, key: PyHash) -> Optional[Any]:
        raise NotImplementedError()

    def store_blob(self, key: PyHash, blob: Any, codec: Optional[ProtocolRef]) -> None:
        """idempotent"""
        pass

    def sync_paths(self, paths: "OrderedDict[DDSPath, PyHash]") -> None:
        """
        Commits all the paths.
        """
        pass

    def fetch_paths(self, paths: List[DDSPath]) -> "OrderedDict[DDSPath, PyHash]":
        """
        Fetches a set of paths from the store. It is expected that all the paths are returned.
        """
        raise NotImplementedError()

    def codec_registry(self) -> CodecRegistry:
        """
        The registry of codecs associated to this instance of a store.

        It is not necessarily unique
        It may not be called for mutable operations during an evaluation. In that case, the behavior is not defined.
        """
        raise NotImplementedError()

    # TODO: reset paths to start the store from scratch without losing data


class NoOpStore(Store):
    """
    The store that never stores an object.

    This store is in practice of very limited value because it cannot store paths to an object either.
    As a result, dds.load() will not work correctly with this store.

    It is recommended to use this store only to debug specific issues for which DDS would be disabled
    altogether.
    """

    def has_blob(self, key: PyHash) -> bool:
        return False

    def fetch_blob(self, key: PyHash) -> Optional[Any]:
        raise DDSException(f"Blob {key} not store (NoOpStore)")

    def store_blob(self, key: PyHash, blob: Any, codec: Optional[ProtocolRef]) -> None:
        return

    def sync_paths(self, paths: "OrderedDict[DDSPath, PyHash]") -> None:
        """
        Commits all the paths.
        """
        return

    def fetch_paths(self, paths: List[DDSPath]) -> "OrderedDict[DDSPath, PyHash]":
        """
        Fetches a set of paths from the store. It is expected that all the paths are returned.
        """
        raise DDSException(f"Cannot fetch paths (the NoOpStore does not store paths)")

    def codec_registry(self) -> CodecRegistry:
        return codec_registry()


class MemoryStore(Store):
    """
    The store that stores all objects in memory, without saving them permanently in storage.
    It is an good example of how to implement a store that is fully functional.

    This store is useful when the following conditions are met:
    - there is limited value in storing objects beyond the lifetime of the process
    - some complex objects are not serializable
    - the objects are not too large in memory

    This store is not useful for most users, but is useful in debugging or testing context.
    """

    def __init__(self):
        self._cache: Dict[PyHash, Any] = {}
        self._paths: Dict[DDSPath, PyHash] = {}

    def has_blob(self, key: PyHash) -> bool:
        return key in self._cache

    def fetch_blob(self, key: PyHash) -> Optional[Any]:
        return self._cache.get(key)

    def store_blob(self, key: PyHash, blob: Any, codec: Optional[ProtocolRef]) -> None:
        if key in self._cache:
            _logger.warning(f"Overwriting key {key}")
        self._cache[key] = blob

    def sync_paths(self, paths: "OrderedDict[DDSPath, PyHash]") -> None:
        """
        Commits all the paths.
        """
        for (p, k) in paths.items():
            if p in self._paths:
                _logger.debug(f"Overwriting path: {p} -> {k}")
            else:
                _logger.debug(f"Registering path: {p} -> {k}")
            self._paths[p] = k

    def fetch_paths(self, paths: List[DDSPath]) -> "OrderedDict[DDSPath, PyHash]":
        """
        Fetches a set of paths from the store. It is expected that all the paths are returned.
        """
        missing_paths = [p for p in paths if p not in self._paths]
        if missing_paths:
            raise DDSException(f"Missing paths in store: {missing_paths}")
        return OrderedDict([(p, self._paths[p]) for p in paths])

    def codec_registry(self) -> CodecRegistry:
        # All the default content
        return codec_registry()


class LocalFileStore(Store):
    def __init__(self, internal_dir: str, data_dir: str, create_dirs: bool = True):
        # Absolute paths: the links in the data directory point to the blobs, and the store must keep
        # working when the working directory of the process changes.
        internal_dir = os.path.abspath(internal_dir)
        data_dir = os.path.abspath(data_dir)
        self._root = internal_dir
        self._data_root = data_dir
        if not os.path.isdir(internal_dir):
            if create_dirs:
                _logger.debug(f"Creating dir {internal_dir}")
                # Another process may create the same directories at the same time.
                os.makedirs(internal_dir, exist_ok=True)
            else:
                raise DDSException(
                    f"Path {internal_dir} is not a directory",
                    DDSErrorCode.STORE_PATH_NOT_FOUND,
                )
        if not os.path.isdir(data_dir):
            if create_dirs:
                _logger.debug(f"Creating dir {data_dir}")
                os.makedirs(data_dir, exist_ok=True)
            else:
                raise DDSException(
                    f"Path {data_dir} is not a directory",
                    DDSErrorCode.STORE_PATH_NOT_FOUND,
                )
        p_blobs = os.path.join(self._root, "blobs")
        if not os.path.exists(p_blobs):
            os.makedirs(p_blobs, exist_ok=True)

    def __repr__(self):
        return f"LocalFileStore(internal_dir={self._root} data_dir={self._data_root})"

    def fetch_blob(self, key: PyHash) -> Any:
        p = os.path.join(self._root, "blobs", key)
        meta_p = os.path.join(self._root, "blobs", key + ".meta")
        if not os.path.exists(p) or not os.path.exists(meta_p):
            return None
        with open(meta_p, "rb") as f:
            ref = ProtocolRef(json.load(f)["protocol"])
        codec = codec_registry().get_codec(None, ref)
        if isinstance(codec, CodecProtocol):
            return codec.deserialize_from(GenericLocation(p))
        elif isinstance(codec, FileCodecProtocol):
            # Directly deserializing from the final path
            return codec.deserialize_from(PurePath(p))

    def store_blob(
        self, key: PyHash, blob: Any, codec: Optional[ProtocolRef] = None
    ) -> None:
        protocol: Union[CodecProtocol, FileCodecProtocol] = codec_registry().get_codec(
            STU.from_type(type(blob)), codec
        )
        p = os.path.join(self._root, "blobs", key)
        # The blob and its metadata are written under a temporary name and renamed into place, so that
        # a reader (or a process restarted after a crash) never observes a partially written file.
        # The metadata is written last: its presence marks the blob as committed.
        tmp_p = self._tmp_name(p)
        if isinstance(protocol, CodecProtocol):
            protocol.serialize_into(blob, GenericLocation(tmp_p))
        elif isinstance(protocol, FileCodecProtocol):
            # This is the local file system, we can directly write the file next to its final destination
            protocol.serialize_into(blob, PurePath(tmp_p))
        else:
            raise DDSException(f"Wrong protocol type: {type(protocol)} {protocol}")
        os.replace(tmp_p, p)
        meta_p = os.path.join(self._root, "blobs", key + ".meta")
        tmp_meta_p = self._tmp_name(meta_p)
        with open(tmp_meta_p, "wb") as f:
            f.write(
                json.dumps(
                    {
                        "protocol": protocol.ref(),
                        "timestamp_millis": current_timestamp(),
                    }
                ).encode("utf-8")
            )
        os.replace(tmp_meta_p, meta_p)
        _logger.debug(f"Committed new blob in {key}")

    def has_blob(self, key: PyHash) -> bool:
        # A blob is present once its metadata has been written (see store_blob).
        p = os.path.join(self._root, "blobs", key)
        meta_p = os.path.join(self._root, "blobs", key + ".meta")
        return os.path.exists(p) and os.path.exists(meta_p)

    @staticmethod
    def _tmp_name(p: str) -> str:
        """A name next to p that is private to this process."""
        return f"{p}.tmp-{os.getpid()}"

    def _path_location(self, path: DDSPath) -> str:
        """
        The location of a DDS path under the data directory: one directory level per segment
        of the path, so that distinct paths never share a location and stay inside the data directory.
        """
        segments = [s for s in path.split("/") if s]
        if not segments or any(s in (".", "..") for s in segments):
            raise DDSException(
                f"Path {path} cannot be mapped to a location inside {self._data_root}: "
                f"a path must have at least one segment, and '.' or '..' segments are not allowed",
                DDSErrorCode.STORE_PATH_NOT_SUPPORTED,
            )
        return os.path.join(self._data_root, *segments)

    def sync_paths(self, paths: "OrderedDict[DDSPath, PyHash]") -> None:
        for (path, key) in paths.items():
            loc = self._path_location(path)
            loc_dir = os.path.dirname(loc)
            if not os.path.exists(loc_dir):
                _logger.debug(f"Creating dir {loc_dir}")
                os.makedirs(loc_dir, exist_ok=True)
            loc_blob = os.path.join(self._root, "blobs", key)
            if os.path.exists(loc) and os.path.realpath(loc) == loc_blob:
                _logger.debug(f"Link {loc} up to date")
            else:
                _logger.info(f"Link {loc} -> {loc_blob}")
                # The new link is created under a temporary name and renamed over the previous one:
                # the path always resolves to its old or to its new blob, also if this process is
                # killed or another one commits the same path at the same time.
                tmp_loc = self._tmp_name(loc)
                if os.path.lexists(tmp_loc):
                    os.remove(tmp_loc)
                os.symlink(loc_blob, tmp_loc)
                os.replace(tmp_loc, loc)

    def fetch_paths(self, paths: List[DDSPath]) -> "OrderedDict[DDSPath, PyHash]":
        res = OrderedDict()
        for path in paths:
            if path not in res:
                # Assemble the path
                loc = self._path_location(path)
                loc_dir = os.path.dirname(loc)
                if not os.path.exists(loc_dir):
                    _logger.debug(f"Dir {loc_dir} does not exist")
                    raise DDSException(
                        f"Requested to load path {path} but directory {loc_dir} does not exist"
                    )
                if not os.path.exists(loc):
                    raise DDSException(
                        f"Requested to load path {path} but path {loc} does not exist"
                    )
                rp = os.path.realpath(loc)
                # The key is the last element of the path
                key = PyHash(os.path.split(rp)[-1])
                res[path] = key
        return res

    def codec_registry(self) -> CodecRegistry:
        return codec_registry()


def current_timestamp() -> int:
    """The current timestamp.

    Note: this timestamp is not secure because it depends on a reliable source
    of time on the client's machine. It is only used for limited precision
    operations nuch as garbage collection.
    """
    # TODO: use time.time_ns() when dropping support for python 3.6
    return int(round(time.time() * 1000))
