"""
Databricks-specific storage implementation. It is based on the dbutils object
which has to be provided at runtime.
"""
import json
import logging
import tempfile
from collections import OrderedDict
from enum import Enum
from pathlib import Path
from types import FunctionType
from typing import Any, Optional, List, Union
from dataclasses import dataclass
from urllib.parse import urlparse

from ..codec import CodecRegistry
from ..store import Store, current_timestamp
from ..structures import CodecProtocol, ProtocolRef, FileCodecProtocol, DDSException
from ..structures import PyHash, DDSPath, GenericLocation, SupportedType as ST
from ..structures_utils import SupportedTypeUtils as STU

_logger = logging.getLogger(__name__)


@dataclass(frozen=True)
class DBFSURI:
    """A URI that can be interpreted by DBFS"""

    _uri: str

    def joinpath(self, *segments: Union[Path, str]) -> "DBFSURI":
        uri: str = self._uri
        for seg in segments:
            s: str
            if isinstance(seg, Path):
                s = str(seg)
            elif isinstance(seg, str):
                s = seg
            else:
                raise NotImplementedError(
                    f"Cannot join path for {self}: {type(seg)}: {seg}"
                )
            if s.startswith("."):
                s = s[1:]
            if s.startswith("/"):
                s = s[1:]
            if not uri.endswith("/"):
                uri = uri + "/"
            uri = uri + s
        return DBFSURI(uri)

    @staticmethod
    def parse(url: str) -> "DBFSURI":
        return DBFSURI(urlparse(url).geturl())

    def __repr__(self):
        return self._uri


def displayGraph(f: FunctionType) -> None:
    """
    Displays the graph of computation of a data function in a Databricks cell.

    Example:

    ```py
    @dds.data_function("/my_fun")
    def my_fun(): return 1

    displayGraph(my_fun)
    ```

    Arguments:
        f: any function that is supported by the [[dds.eval]] function.

    Limitations:
    - The browser must support SVG format. Some browser such as Chrome or Edge have limitations around this support.

    Recommended browser: Firefox.
    """
    name = str(id(f))
    from .._api import eval as dds_eval, _fetch_ipython_vars

    dds_eval(
        f,
        args=(),
        kwargs={},
        dds_export_graph=f"/tmp/graph_{name}.svg",
        dds_extra_debug=True,
        dds_stages=["analysis"],
    )
    _fetch_ipython_vars()["dbutils"].fs.cp(
        f"file:///tmp/graph_{name}.svg", f"/FileStore/plots/graph_{name}.svg"
    )
    _fetch_ipython_vars()["displayHTML"](
        f""" <img src="files/plots/graph_{name}.svg"> """
    )


class CommitType(str, Enum):
    """
    The types of commits that can be done with DBFS
    """

    NO_COMMIT = "no_commit"
    LINK_ONLY = "link_only"
    FULL = "full"

    @staticmethod
    def parse(name: Optional[str]) -> "CommitType":
        """
        The commit type for a user-provided name: the documented names ('none', 'links_only', 'full')
        and the names / values of this enumeration are accepted, in any case. Default: full.
        """
        if name is None:
            return CommitType.FULL
        aliases = {
            "none": CommitType.NO_COMMIT,
            "no_commit": CommitType.NO_COMMIT,
            "links_only": CommitType.LINK_ONLY,
            "link_only": CommitType.LINK_ONLY,
            "full": CommitType.FULL,
        }
        key = str(name).strip().lower()
        if key not in aliases:
            raise DDSException(
                f"Unknown commit type '{name}'. The accepted values are 'none', 'links_only' and 'full'"
            )
        return aliases[key]


def _pprint_exception(e: Exception) -> str:
    return "".join(str(e).split("\n")[:3]).replace("\t", "")


class PySparkDatabricksCodec(CodecProtocol):
    def ref(self):
        return ProtocolRef("dbfs.pyspark")

    def handled_types(self):
        return [ST("pyspark.sql.DataFrame"), ST("pyspark.sql.dataframe.DataFrame")]

    def serialize_into(self, blob: Any, loc: GenericLocation) -> None:
        from pyspark.sql import DataFrame  # type: ignore

        assert isinstance(blob, DataFrame), type(blob)
        blob.write.parquet(loc)
        _logger.debug(f"Committed dataframe to parquet: {loc}")

    def deserialize_from(self, loc: GenericLocation) -> Any:
        import pyspark  # type: ignore

        session = pyspark.sql.SparkSession.getActiveSession()
        _logger.debug(f"Reading parquet from loc {loc} using session {session}")
        df = session.read.parquet(loc)
        _logger.debug(f"Done reading parquet from loc {loc}: {df}")
        return df


class DBFSStore(Store):
    def __init__(
        self,
        internal_dir: DBFSURI,
        data_dir: DBFSURI,
        dbutils: Any,
        commit_type: CommitType,
    ):
        self._internal_dir: DBFSURI = internal_dir
        self._data_dir: DBFSURI = data_dir
        _logger.debug(
            f"Created DBFSStore: internal_dir: {self._internal_dir} data_dir: {self._data_dir}"
        )
        self._dbutils = dbutils
        self._commit_type = commit_type
        from .builtins import StringLocalFileCodec, PickleLocalFileCodec, BytesFileCodec
        from .pandas import PandasFileCodec

        slfc = StringLocalFileCodec()
        bfc = BytesFileCodec()
        plfc = PickleLocalFileCodec()

        self._registry = CodecRegistry(
            [PySparkDatabricksCodec()],
            [slfc, bfc, plfc, PandasFileCodec()],
        )
        # Deprecation hack
        # To ensure that older data already written can still be read, add the following compatibility routines:
        for (old_codec_ref, new_codec) in [
            ("dbfs.pickle", plfc),
            ("dbfs.string", slfc),
            ("dbfs.bytes", bfc),
        ]:
            self._registry._protocols[ProtocolRef(old_codec_ref)] = new_codec

    def fetch_blob(self, key: PyHash) -> Optional[Any]:
        p = self._blob_path(key)
        meta = self._fetch_meta(key)
        if meta is None:
            return None
        ref = ProtocolRef(meta["protocol"])
        codec = self._registry.get_codec(None, ref)
        if isinstance(codec, CodecProtocol):
            return codec.deserialize_from(GenericLocation(str(p)))
        elif isinstance(codec, FileCodecProtocol):
            # File codec protocol:
            # First copy the file locally and then deserialize the local file
            with tempfile.TemporaryDirectory() as td:
                lp = Path(td).joinpath("file")
                lp2 = f"file://{lp}"
                _logger.debug(f"Temporary copy from DBFS: {p} -> {lp2}")
                self._dbutils.fs.cp(str(p), str(lp2))
                return codec.deserialize_from(lp)
        else:
            raise DDSException(f"Wrong codec type: {type(codec)}")

    def store_blob(self, key: PyHash, blob: Any, codec: Optional[ProtocolRef]) -> None:
        protocol = self._registry.get_codec(STU.from_type(type(blob)), codec)
        _logger.debug(
            f"store_blob: {key} {type(blob)} {codec} {STU.from_type(type(blob))} -> protocol: {protocol}"
        )
        p = self._blob_path(key)
        if isinstance(protocol, CodecProtocol):
            protocol.serialize_into(blob, GenericLocation(str(p)))
        elif isinstance(protocol, FileCodecProtocol):
            # First put the blob into a temporary file and then push the blob to DBFS
            with tempfile.TemporaryDirectory() as td:
                lp = Path(td).joinpath("file")
                protocol.serialize_into(blob, lp)
                lp2 = f"file://{lp}"
                _logger.debug(f"Temporary copy from DBFS: {lp2} -> {p}")
                self._dbutils.fs.cp(lp2, str(p))
        else:
            raise DDSException(f"Wrong codec type: {type(protocol)}")
        meta_p = self._blob_meta_path(key)
        try:
            meta = json.dumps(
                {"protocol": protocol.ref(), "timestamp_millis": current_timestamp()}
            )
            self._put(meta_p, meta)
        except Exception as e:
            _logger.warning(
                f"Failed to write blob metadata to {meta_p}: {_pprint_exception(e)}"
            )
            raise e
        _logger.debug(f"Committed new blob in {key}")

    def has_blob(self, key: PyHash) -> bool:
        return self._fetch_meta(key) is not None

    def sync_paths(self, paths: "OrderedDict[DDSPath, PyHash]") -> None:
        if self._commit_type == CommitType.NO_COMMIT:
            return
        # This is a brute force approach that copies all the data and writes extra meta data.
        for (dds_p, key) in paths.items():
            # Look for the redirection file associated to this file
            # The paths are /_dds_meta/path
            redir_p = Path("_dds_meta/").joinpath("./" + dds_p)
            redir_path = self._physical_path(redir_p)
            # Try to read the redirection information:
            _logger.debug(
                f"Attempting to read metadata for key {key}: {redir_path} {redir_p} {dds_p}"
            )
            meta: Optional[str]
            try:
                meta = self._head(redir_path)
            except Exception as e:
                _logger.debug(
                    f"Could not read metadata for key {key}: {_pprint_exception(e)}"
                )
                meta = None
            if meta is not None:
                redir_key = json.loads(meta)["redirection_key"]
            else:
                redir_key = None
            if redir_key is None or redir_key != key:
                _logger.debug(
                    f"Path {dds_p} needs update (registered key {redir_key} != {key})"
                )
                blob_path = self._blob_path(key)
                obj_path = self._physical_path(Path("./" + dds_p))
                if self._commit_type == CommitType.FULL:
                    _logger.debug(f"Copying {blob_path} -> {obj_path}")
                    # Optimization for the files saved with Spark: use spark to read and write.
                    # This can be much faster than using DBFS, which does a temporary copy on a local drive
                    blob_meta = json.loads(self._head(self._blob_meta_path(key)))
                    _logger.debug(f"sync_path: blob_meta: {blob_path}")
                    if blob_meta.get("protocol") == "dbfs.pyspark":
                        _logger.debug(f"Using pyspark to copy {blob_path}")
                        df = self.fetch_blob(key)
                        from pyspark.sql import DataFrame

                        assert isinstance(df, DataFrame), (type(df), key, blob_path)
                        self._dbutils.fs.rm(str(obj_path), recurse=True)
                        df.write.parquet(str(obj_path))
                    else:
                        self._dbutils.fs.cp(str(blob_path), str(obj_path), recurse=True)
                    _logger.debug(f"Done copying {blob_path} -> {obj_path}")
                else:
                    _logger.debug(f"Skip copy for {obj_path} (links-only commit)")
                _logger.debug(f"Linking new file {obj_path}")
                try:
                    meta = json.dumps({"redirection_key": key})
                    self._put(redir_path, meta)
                except Exception as e:
                    _logger.warning(
                        f"Failed to write blob metadata to {redir_path}: {_pprint_exception(e)}"
                    )
                    raise e
            else:
                _logger.debug(f"Path {dds_p} is up to date (key {key})")

    def fetch_paths(self, paths: List[DDSPath]) -> "OrderedDict[DDSPath, PyHash]":
        res = OrderedDict()
        # This is a brute force approach that copies all the data and writes extra meta data.
        for dds_p in paths:
            # TODO: this is the same code as sync_path, factorize
            # Look for the redirection file associated to this file
            # The paths are /_dds_meta/path
            redir_p = Path("_dds_meta/").joinpath("./" + dds_p)
            redir_path = self._physical_path(redir_p)
            # Try to read the redirection information:
            _logger.debug(
                f"Attempting to read metadata: {redir_path} {redir_p} {dds_p}"
            )
            meta: Optional[str]
            try:
                meta = self._head(redir_path)
            except Exception as e:
                _logger.debug(f"Could not read metadata: {_pprint_exception(e)}")
                raise e
            redir_key = json.loads(meta)["redirection_key"]
            res[dds_p] = PyHash(redir_key)
        return res

    def codec_registry(self) -> CodecRegistry:
        return self._registry

    def _blob_path(self, key: PyHash) -> DBFSURI:
        return self._internal_dir.joinpath("blobs", key)

    def _blob_meta_path(self, key: PyHash) -> DBFSURI:
        return self._internal_dir.joinpath("blobs", key + ".meta")

    def _physical_path(self, dds_p: Path) -> DBFSURI:
        return self._data_dir.joinpath(dds_p)

    def _fetch_meta(self, key: PyHash) -> Optional[Any]:
        meta_p = self._blob_meta_path(key)
        try:
            _logger.debug(f"Attempting to read metadata for key {key}: {meta_p}")
            meta: str = self._head(meta_p)
            _logger.debug(f"Attempting to read metadata for key {key}: meta = {meta}")
            return json.loads(meta)
        except Exception as e:
            _logger.debug(
                f"Could not read metadata for key {key}: {_pprint_exception(e)}"
            )
            return None

    def _head(self, p: DBFSURI) -> str:
        return self._dbutils.fs.head(str(p))  # type:ignore

    def _put(self, p: DBFSURI, blob: str) -> Any:
        return self._dbutils.fs.put(str(p), blob, overwrite=True)
