"""
The pandas protocol.

It relies on pandas having a parquet driver installed (which may or may not be the case)
"""

import logging
from pathlib import PurePath
from typing import Any

from ..structures import (
    ProtocolRef,
    SupportedType as ST,
    FileCodecProtocol,
)

_logger = logging.getLogger(__name__)


class PandasFileCodec(FileCodecProtocol):
    def ref(self):
        return ProtocolRef("local.pandas")

    def handled_types(self):
        return [ST("pandas.DataFrame"), ST("pandas.core.frame.DataFrame")]

    def serialize_into(self, blob: Any, loc: PurePath):
        import pandas

        assert isinstance(blob, pandas.DataFrame)
        blob.to_parquet(str(loc))
        _logger.debug(f"Committed dataframe to parquet: {loc}")

    def deserialize_from(self, loc: PurePath) -> "pandas.DataFrame":
        import pandas

        return pandas.read_parquet(str(loc))
