"""
The string protocol.
"""
import pickle
from pathlib import PurePath
from typing import Any, List

from ..structures import (
    FileCodecProtocol,
    ProtocolRef,
    CodecBackend,
    SupportedType,
)
from ..structures_utils import SupportedTypeUtils as STU

Local = CodecBackend("Local")


class StringLocalFileCodec(FileCodecProtocol):
    def ref(self):
        return ProtocolRef("local.string")

    def handled_types(self) -> List[SupportedType]:
        return [STU.from_type(str)]

    def serialize_into(self, blob: str, loc: PurePath) -> None:
        assert isinstance(blob, str), type(blob)
        with open(str(loc), "wb") as f:
            f.write(blob.encode(encoding="utf-8"))

    def deserialize_from(self, loc: PurePath) -> str:
        with open(str(loc), "rb") as f:
            return f.read().decode("utf-8")


class BytesFileCodec(FileCodecProtocol):
    def ref(self):
        return ProtocolRef("local.bytes")

    def handled_types(self) -> List[SupportedType]:
        return [STU.from_type(bytes), STU.from_type(bytearray)]

    def serialize_into(self, blob: Any, loc: PurePath) -> None:
        assert isinstance(blob, (bytes, bytearray)), type(blob)
        with open(str(loc), "wb") as f:
            f.write(blob)

    def deserialize_from(self, loc: PurePath) -> bytes:
        with open(str(loc), "rb") as f:
            return f.read()


class PickleLocalFileCodec(FileCodecProtocol):
    def ref(self):
        return ProtocolRef("local.pickle")

    def handled_types(self) -> List[SupportedType]:
        return [STU.from_type(type(None)), SupportedType("object")]

    def serialize_into(self, blob: Any, loc: PurePath) -> None:
        with open(str(loc), "wb") as f:
            pickle.dump(blob, f)

    def deserialize_from(self, loc: PurePath) -> Any:
        with open(str(loc), "rb") as f:
            return pickle.load(f)
