"""
The main API functions
"""

import sys
import logging
import pathlib
import time
import tempfile
from collections import OrderedDict
from typing import TypeVar, Tuple, Callable, Dict, Any, Optional, Union, Set, List

from ._eval_ctx import EvalMainContext
from ._introspect_indirect import introspect_indirect
from .fun_args import get_arg_ctx
from .introspect import introspect, _accepted_packages
from ._lru_store import LRUCacheStore, default_cache_size

from .store import LocalFileStore, Store, NoOpStore, MemoryStore
from .structures import (
    DDSPath,
    DDSException,
    EvalContext,
    PyHash,
    ProcessingStage,
    DDSErrorCode,
)
from .structures_utils import (
    DDSPathUtils,
    FunctionInteractionsUtils,
    FunctionIndirectInteractionUtils,
)
from ._config import get_option, extra_debug_option

_Out = TypeVar("_Out")
_In = TypeVar("_In")
_logger = logging.getLogger(__name__)


# TODO: set up in the use temporary space
_store_var: Optional[Store] = None
_eval_ctx: Optional[EvalContext] = None


def keep(
    path: Union[str, DDSPath, pathlib.Path],
    fun: Callable[..., _Out],
    *args: Tuple[Any, ...],
    **kwargs: Dict[str, Any],
) -> _Out:
    path = DDSPathUtils.create(path)
    res: Optional[_Out] = _eval(fun, path, args, kwargs, None, None, None)
    return res  # type: ignore


def eval(
    fun: Callable[[_In], _Out],
    args: Tuple[Any, ...],
    kwargs: Dict[str, Any],
    dds_export_graph: Union[str, pathlib.Path, None],
    dds_extra_debug: Optional[bool],
    dds_stages: Optional[List[Union[str, ProcessingStage]]],
) -> Optional[_Out]:
    return _eval(fun, None, args, kwargs, dds_export_graph, dds_extra_debug, dds_stages)


def load(path: Union[str, DDSPath, pathlib.Path]) -> Any:
    path_ = DDSPathUtils.create(path)
    key: Optional[PyHash]
    if _eval_ctx is not None and path_ in _eval_ctx.requested_paths:
        # The path is kept by the evaluation in progress: it is only committed to the store when the
        # evaluation ends, so serve the blob that this evaluation assigned to it.
        key = _eval_ctx.requested_paths[path_]
        if not _store().has_blob(key):
            raise DDSException(
                f"The path {path_} is loaded before it is produced: it is kept later in the "
                f"evaluation in progress. Suggestion: call the function that keeps {path_} before "
                f"loading it.",
                DDSErrorCode.STORE_PATH_NOT_FOUND,
            )
    else:
        key = _store().fetch_paths([path_]).get(path_)
    if key is None:
        raise DDSException(f"The store {_store()} did not return path {path_}")
    else:
        return _store().fetch_blob(key)


def set_store(
    store: Union[str, Store],
    internal_dir: Optional[str],
    data_dir: Optional[str],
    dbutils: Optional[Any],
    commit_type: Optional[str],
    cache_objects: Union[bool, int, None],
) -> None:
    """
    Sets the store for the execution of the program.

    store: either a store, or 'local' or 'dbfs'
    """
    global _store_var
    if isinstance(store, Store):
        if cache_objects is not None:
            raise DDSException(
                f"Cannot provide a caching option and a store object of type 'Store' at the same time"
            )
        # Directly setting the store
        _store_var = store
        return
    elif store == "local":
        if not internal_dir:
            internal_dir = str(
                pathlib.Path(tempfile.gettempdir()).joinpath("dds", "store")
            )
        if not data_dir:
            data_dir = str(pathlib.Path(tempfile.gettempdir()).joinpath("dds", "data"))
        _store_var = LocalFileStore(internal_dir, data_dir)
    elif store == "dbfs":
        if data_dir is None:
            raise DDSException("Missing data_dir argument")
        if internal_dir is None:
            raise DDSException("Missing internal_dir argument")
        dbutils = dbutils or _fetch_ipython_vars().get("dbutils")
        if dbutils is None:
            raise DDSException(
                "Missing dbutils objects from input or from arguments."
                " You must be using a databricks notebook to use the DBFS store"
            )
        from .codecs.databricks import DBFSStore, CommitType, DBFSURI

        commit_type_ = CommitType.parse(commit_type)

        _store_var = DBFSStore(
            DBFSURI.parse(internal_dir), DBFSURI.parse(data_dir), dbutils, commit_type_
        )
    elif store == "noop":
        _store_var = NoOpStore()
    elif store == "memory":
        _store_var = MemoryStore()  # type: ignore
    else:
        raise DDSException(f"Unknown store {store}")

    if cache_objects is not None:
        num_objects: Optional[int] = None

        if not isinstance(cache_objects, (int, bool)):
            raise DDSException(
                f"cached_object should be int or bool, received type {type(cache_objects)}"
            )
        if isinstance(cache_objects, bool) and cache_objects:
            num_objects = default_cache_size
        elif isinstance(cache_objects, int):
            if cache_objects < 0:
                num_objects = sys.maxsize // 2
            elif cache_objects > 0:
                num_objects = cache_objects
        if num_objects is not None:
            _store_var = LRUCacheStore(_store(), num_elem=num_objects)
    _logger.debug(f"Setting the store to {_store()}")


def _parse_stages(
    dds_stages: Optional[List[Union[str, ProcessingStage]]]
) -> List[ProcessingStage]:
    if dds_stages is None:
        return ProcessingStage.all_phases()

    def check(s: Union[str, ProcessingStage], cur: ProcessingStage) -> ProcessingStage:
        if isinstance(s, str):
            s = s.upper()
            if s not in dir(ProcessingStage):
                raise DDSException(
                    f"{s} is not a valid stage name. Valid names are {dir(ProcessingStage)}"
                )
            x = ProcessingStage[s]
        elif isinstance(s, ProcessingStage):
            x = s
        else:
            raise DDSException(f"Not a valid type: {s} {type(s)}")
        if x != cur:
            raise DDSException(
                f"Wrong order for the stage name, expected {cur} but got {x}"
            )
        return cur

    return [check(s, cur) for (s, cur) in zip(dds_stages, ProcessingStage.all_phases())]


def _eval(
    fun: Callable[[_In], _Out],
    path: Optional[DDSPath],
    args: Tuple[Any, ...],
    kwargs: Dict[str, Any],
    dds_export_graph: Union[str, pathlib.Path, None],
    dds_extra_debug: Optional[bool],
    dds_stages: Optional[List[Union[str, ProcessingStage]]],
) -> Optional[_Out]:
    export_graph: Optional[pathlib.Path]
    if dds_export_graph is not None:
        export_graph = pathlib.Path(dds_export_graph).absolute()
    else:
        export_graph = None

    stages = _parse_stages(dds_stages)

    extra_debug = dds_extra_debug or get_option(extra_debug_option)

    if not _eval_ctx:
        # Not in an evaluation context, create one and introspect
        return _eval_new_ctx(fun, path, args, kwargs, export_graph, extra_debug, stages)
    else:
        if not path:
            raise DDSException(
                "Already in dds.eval() context. Nested eval contexts are not supported",
                DDSErrorCode.EVAL_IN_EVAL,
            )
        key = None if path is None else _eval_ctx.requested_paths[path]
        t = _time()
        if key is not None and _store().has_blob(key):
            _logger.debug(f"_eval:Return cached {path} from {key}")
            blob = _store().fetch_blob(key)
            _add_delta(t, ProcessingStage.STORE_COMMIT)
            return blob
        else:
            _add_delta(t, ProcessingStage.STORE_COMMIT)
        arg_repr = [str(type(arg)) for arg in args]
        kwargs_repr = OrderedDict(
            [(key, str(type(arg))) for (key, arg) in kwargs.items()]
        )
        _logger.info(
            f"_eval:Evaluating (keep:{path}) fun {fun} with args {arg_repr} kwargs {kwargs_repr}"
        )
        t = _time()
        res = fun(*args, **kwargs)
        _add_delta(t, ProcessingStage.STORE_COMMIT)
        _logger.info(f"_eval:Evaluating (keep:{path}) fun {fun}: completed")
        if key is not None:
            _logger.info(f"_eval:Storing blob into key {key}")
            t = _time()
            _store().store_blob(key, res, codec=None)
            _add_delta(t, ProcessingStage.STORE_COMMIT)
        return res


def _store() -> Store:
    """
    Gets the current store (or initializes it to the local default store if necessary)
    """
    global _store_var
    if _store_var is None:
        p = pathlib.Path(tempfile.gettempdir()).joinpath("dds")
        store_path = p.joinpath("store")
        data_path = p.joinpath("data")
        _logger.info(
            f"Initializing default store. store dir: {store_path} data dir: {data_path}"
        )
        _store_var = LocalFileStore(str(store_path), str(data_path))
    return _store_var


def _time() -> float:
    return time.monotonic()


def _add_delta(start_t: float, stage: ProcessingStage) -> None:
    global _eval_ctx
    if _eval_ctx is None:
        return
    _eval_ctx.stats_time[stage] += _time() - start_t


def _eval_new_ctx(
    fun: Callable[[_In], _Out],
    path: Optional[DDSPath],
    args: Tuple[Any, ...],
    kwargs: Dict[str, Any],
    export_graph: Optional[pathlib.Path],
    extra_debug: bool,
    stages: List[ProcessingStage],
) -> Optional[_Out]:
    global _eval_ctx
    assert _eval_ctx is None, _eval_ctx
    _eval_ctx = EvalContext(
        requested_paths={},
        stats_time=dict([(stage, 0.0) for stage in ProcessingStage.all_phases()]),
    )
    try:
        t = _time()
        # Fetch the local vars from the call. This is required if running from an old IPython context
        # (like databricks for instance)
        local_vars = _fetch_ipython_vars()
        _logger.debug(f"_eval_new_ctx: local_vars: {sorted(local_vars.keys())}")
        arg_ctx = get_arg_ctx(fun, args, kwargs)
        _logger.debug(f"arg_ctx: {arg_ctx}")
        eval_ctx = EvalMainContext(
            fun.__module__,  # type: ignore
            whitelisted_packages=_accepted_packages,
            start_globals=local_vars,
            resolved_references=OrderedDict(),
        )
        inters_indirect = introspect_indirect(fun, eval_ctx)
        _logger.debug(f"_eval_new_ctx: introspect_indirect completed")
        all_loads = FunctionIndirectInteractionUtils.all_loads(inters_indirect)
        _logger.debug(
            f"_eval_new_ctx: introspect_indirect: {len(all_loads)} loads detected"
        )
        all_stores = FunctionIndirectInteractionUtils.all_stores(inters_indirect)
        _logger.debug(
            f"_eval_new_ctx: introspect_indirect: {len(all_loads)} loads and {len(all_stores)} detected"
        )
        loads_to_check = sorted([p for p in all_loads if p not in all_stores])
        # Check that there are no indirect references to resolve:
        if loads_to_check:
            _logger.debug(
                f"_eval_new_ctx: need to resolve indirect references: {loads_to_check}"
            )
            resolved_indirect_refs = _store().fetch_paths(loads_to_check)
            _logger.debug(
                f"_eval_new_ctx: fetched indirect references: {resolved_indirect_refs}"
            )
        else:
            resolved_indirect_refs = OrderedDict()

        # Make a copy of the dictionary: the context will use it to track all the nodes, which means that
        # at plotting stage, it will contain all the nodes, not just the indirect refs.
        eval_ctx.resolved_references = OrderedDict(resolved_indirect_refs)

        inters = introspect(fun, eval_ctx, arg_ctx)
        _logger.debug(f"_eval_new_ctx: introspect completed")
        # Also add the current path, if requested:
        if path is not None:
            inters = inters._replace(store_path=path)
        store_paths = FunctionInteractionsUtils.all_store_paths(inters)
        _logger.debug(
            f"_eval_new_ctx: assigning {(store_paths)} store path(s) to context"
        )
        faulty_non_terminal_leaves = FunctionInteractionsUtils.non_terminal_leaves(
            list(store_paths.keys()), None
        )
        if faulty_non_terminal_leaves:
            raise DDSException(
                f"The following paths are terminal (they lead to objects) but they also have sub-paths."
                f"This is not allowed {', '.join(faulty_non_terminal_leaves)}",
                DDSErrorCode.OVERLAPPING_PATH,
            )
        _logger.debug(
            f"_eval_new_ctx: assigning {faulty_non_terminal_leaves} store path(s) to context"
        )
        _logger.debug(
            f"_eval_new_ctx: assigning {len(store_paths)} store path(s) to context"
        )
        _eval_ctx = _eval_ctx._replace(requested_paths=store_paths)
        present_blobs: Optional[Set[PyHash]]
        if extra_debug:
            present_blobs = set(
                [key for key in set(store_paths.values()) if _store().has_blob(key)]
            )
            _logger.debug(f"_eval_new_ctx: {len(present_blobs)} present blobs")
        else:
            present_blobs = None

        _logger.debug(f"Interaction tree:")
        FunctionInteractionsUtils.pprint_tree(
            inters, present_blobs, printer=_logger.debug
        )
        if export_graph is not None:
            # Attempt to run the export module:
            from ._plotting import draw_graph

            draw_graph(inters, export_graph, present_blobs, resolved_indirect_refs)
            _logger.debug(f"_eval_new_ctx: draw_graph_completed")

        _logger.debug(f"Stage {ProcessingStage.ANALYSIS} completed")
        _add_delta(t, ProcessingStage.ANALYSIS)
        if ProcessingStage.EVAL not in stages:
            _logger.debug("Stopping here")
            return None

        for (p, key) in store_paths.items():
            _logger.debug(f"Updating path: {p} -> {key}")

        # If the blob for that node already exists, we have computed the path already.
        # We only need to check if the path is committed to the blob
        current_sig = inters.fun_return_sig
        _logger.debug(f"_eval_new_ctx:current_sig: {current_sig}")
        t = _time()
        if _store().has_blob(current_sig):
            _logger.debug(f"_eval_new_ctx:Return cached signature {current_sig}")
            res = _store().fetch_blob(current_sig)
            _add_delta(t, ProcessingStage.STORE_COMMIT)
        else:
            arg_repr = [str(type(arg)) for arg in args]
            kwargs_repr = OrderedDict(
                [(key, str(type(arg))) for (key, arg) in kwargs.items()]
            )
            _logger.info(
                f"_eval_new_ctx:Evaluating (eval) fun {fun} with args {arg_repr} kwargs {kwargs_repr}"
            )
            res = fun(*args, **kwargs)
            _add_delta(t, ProcessingStage.EVAL)
            _logger.info(f"_eval_new_ctx:Evaluating (eval) fun {fun}: completed")
            obj_key: Optional[PyHash] = (
                None if path is None else _eval_ctx.requested_paths[path]
            )
            if obj_key is not None:
                # TODO: add a phase for storing the blobs
                _logger.info(f"_eval:Storing blob into key {obj_key}")
                t = _time()
                _store().store_blob(obj_key, res, codec=None)
                _add_delta(t, ProcessingStage.STORE_COMMIT)

        if ProcessingStage.PATH_COMMIT in stages:
            _logger.debug(f"Starting stage {ProcessingStage.PATH_COMMIT}")
            t = _time()
            _store().sync_paths(store_paths)
            _add_delta(t, ProcessingStage.PATH_COMMIT)
            _logger.debug(f"Stage {ProcessingStage.PATH_COMMIT} done")
        else:
            _logger.info(f"Skipping stage {ProcessingStage.PATH_COMMIT}")
        return res
    finally:
        # Cleaning up the context
        s = (
            sum([_eval_ctx.stats_time[stage] for stage in ProcessingStage.all_phases()])
            + 1e-10
        )
        for stage in ProcessingStage.all_phases():
            x = _eval_ctx.stats_time[stage]
            _logger.info(f"Stage {stage}: {x:.3f} sec {100 * x / s:.2f}%")
        _eval_ctx = None


def _fetch_ipython_vars() -> Dict[str, Any]:
    """
    Fetches variables from the ipython / jupyter environment. This is a best effort method.
    """
    try:
        from IPython import get_ipython  # type: ignore

        ipython: Optional[Any] = get_ipython()  # type: ignore
        if ipython is None:
            return {}
        return dict(ipython.user_ns)
    except ImportError:
        _logger.debug(
            "Failed to import IPython. No jupyter/ipython variables will be logged"
        )
        return {}
