"""
The main evaluation context.

All the information stored in this class is only valid for a single run.
"""
import logging
from collections import OrderedDict
from dataclasses import dataclass
from types import ModuleType
from typing import Tuple, Any, Dict, Set, NewType, Union

from .fun_args import dds_hash
from .structures import (
    PyHash,
    DDSPath,
    FunctionInteractions,
    CanonicalPath,
    LocalDepPath,
    FunctionArgContextHash,
    FunctionIndirectInteractions,
)

_logger = logging.getLogger(__name__)


Package = NewType("Package", str)


@dataclass(frozen=True)
class AuthorizedObject:
    """
    An authorized object. This object can be anything (either a function ar an object that
    needs to be hashed).
    """

    object_val: Any
    resolved_path: CanonicalPath


@dataclass(frozen=True)
class ExternalObject:
    """
    A function that is defined in an external module.
    It is not full resolved to an object, as just the path itself is enough.
    """

    resolved_path: CanonicalPath


ObjectRetrievalType = Union[None, AuthorizedObject, ExternalObject]


class EvalMainContext(object):
    """
    The shared information across a single run.

    TODO: rename RunEvalContext
    """

    def __init__(
        self,
        start_module: ModuleType,
        whitelisted_packages: Set[Package],
        start_globals: Dict[str, Any],
        resolved_references: "OrderedDict[DDSPath, PyHash]",
    ):
        self.whitelisted_packages = whitelisted_packages
        self.start_module = start_module
        self.start_globals = start_globals
        self.resolved_references: "OrderedDict[DDSPath, PyHash]" = resolved_references
        # Hashes of all the static objects
        self._hashes: Dict[CanonicalPath, PyHash] = {}
        self.cached_fun_interactions: Dict[
            Tuple[CanonicalPath, FunctionArgContextHash], FunctionInteractions
        ] = dict()
        self.cached_objects: Dict[
            Tuple[LocalDepPath, CanonicalPath], ObjectRetrievalType
        ] = dict()
        self.cached_indirect_interactions: Dict[
            CanonicalPath, FunctionIndirectInteractions
        ] = dict()

    def get_hash(self, path: CanonicalPath, obj: Any) -> PyHash:
        if path not in self._hashes:
            key = dds_hash(obj)
            _logger.debug(f"Cache key: %s: %s %s", path, type(obj), key)
            self._hashes[path] = key
            return key
        return self._hashes[path]

    def is_authorized_path(self, cp: CanonicalPath) -> bool:
        # A path is authorized if one of its (non-empty) prefixes is an accepted package.
        for idx in range(1, len(cp._path.parts) + 1):
            if ".".join(cp._path.parts[:idx]) in self.whitelisted_packages:
                return True
        return False
