"""
Parsing of the lambda functions
code inspired by:
http://xion.io/post/code/python-get-lambda-code.html
"""

from typing import Iterable, Tuple, Optional, Callable, List, Dict, Any

import ast
import asttokens
import inspect
import logging
from ._print_ast import pformat
from .structures import DDSException

_logger = logging.getLogger(__name__)


def _walk_with_parent(node: ast.AST) -> Iterable[Tuple[ast.AST, Optional[ast.AST]]]:
    """Walk the abstract syntax tree by (node, parent)."""
    stack: List[Tuple[ast.AST, Optional[ast.AST]]] = [(node, None)]
    while stack:
        node, parent = stack.pop()

        for child in ast.iter_child_nodes(node):
            stack.append((child, node))

        yield node, parent


def is_lambda(fun: Callable[..., Any]) -> bool:
    """
    Check whether the condition is a lambda function.

    :param fun: condition function of a contract
    :return: True if condition is defined as lambda function
    """
    return fun.__name__ == "<lambda>"


def inspect_lambda_condition(fun: Callable[..., Any]) -> ast.Lambda:
    """
    Parse the file in which condition resides and figure out
    the corresponding lambda AST node.

    :param fun: condition lambda function
    :return:
        inspected lambda function, or None if the condition
        is not a lambda function
    """
    assert is_lambda(fun), fun

    # Parse the whole file and find the AST node of the condition lambda.
    # This is necessary, since condition.__code__ gives us only a line number
    # which is too vague to find the lambda node.
    lines, condition_lineno = inspect.findsource(fun)
    _logger.debug(f"_parse_lambda: {lines}")

    atok = asttokens.ASTTokens("".join(lines), parse=True)
    atok_tree = atok.tree
    assert isinstance(atok_tree, ast.AST), atok_tree

    parent_of: Dict[ast.AST, Optional[ast.AST]] = dict()
    for node, parent in _walk_with_parent(atok_tree):
        parent_of[node] = parent

    # node of the decorator
    call_node: Optional[ast.Call] = None

    for node in ast.walk(atok_tree):
        if isinstance(node, ast.Lambda) and node.lineno - 1 == condition_lineno:
            # Go up all the way to the decorator
            ancestor = parent_of[node]

            while ancestor is not None and not isinstance(ancestor, ast.Call):
                ancestor = parent_of[ancestor]

            if ancestor is not None and isinstance(ancestor, ast.Call):
                call_node = ancestor
                break
    _logger.debug(f"_parse_lambda: call_node: {pformat(call_node)}")

    if call_node is None:
        raise DDSException(f"Could not find call node {pformat(call_node)}")

    for node in ast.walk(call_node):
        if isinstance(node, ast.Lambda):
            return node
    raise DDSException(f"Could not parse lambda {pformat(call_node)}")
