import keyword
import builtins
import ast
import sys
import inspect
from collections import OrderedDict
import logging
from enum import Enum
from pathlib import PurePosixPath
from types import ModuleType, FunctionType
from typing import (
    Tuple,
    Callable,
    cast,
    Any,
    Dict,
    Set,
    Union,
    Optional,
    List,
    NewType,
    Sequence,
)

from ._eval_ctx import (
    EvalMainContext,
    Package,
    ExternalObject,
    AuthorizedObject,
    ObjectRetrievalType,
)
from ._global_ctx import _global_context, PythonId
from ._lambda_funs import is_lambda, inspect_lambda_condition
from ._print_ast import pformat
from ._retrieve_objects import ObjectRetrieval, function_path
from .fun_args import dds_hash_commut, HashKey as HK, dds_hash, get_arg_ctx_ast
from .structures import (
    PyHash,
    FunctionArgContext,
    DDSPath,
    FunctionInteractions,
    DDSException,
    CanonicalPath,
    ExternalDep,
    LocalDepPath,
    DDSErrorCode,
)
from .structures_utils import DDSPathUtils, CanonicalPathUtils

# Only for loading classes in a notebook:
try:
    from IPython.core.magics.code import extract_symbols
except ImportError:
    exctract_sympols = None

_logger = logging.getLogger(__name__)
_hash_key_body_sig = HK("body_sig")
_hash_key_fun_input = HK("function_input_hash")
_hash_key_fun_inter = HK("function_inter_hash")


# The name of a local function var
LocalVar = NewType("LocalVar", str)


def introspect(
    f: Callable[[Any], Any], eval_ctx: EvalMainContext, arg_ctx: FunctionArgContext
) -> FunctionInteractions:
    # TODO: exposed the whitelist
    # TODO: add the arguments of the function
    fun: FunctionType = cast(FunctionType, f)
    return _introspect(fun, arg_ctx, eval_ctx, call_stack=[])


class Functions(str, Enum):
    Load = "load"
    Keep = "keep"
    Eval = "eval"


# All the builtins that should not be looked at.
# See https://stackoverflow.com/questions/50112359/how-to-get-the-list-of-all-built-in-functions-in-python
python_builtin_names: Set[str] = set(
    [name for name, _ in vars(builtins).items()] + list(keyword.kwlist)
)


def get_assign_targets(node: Any) -> List[LocalVar]:
    """
    Returns the name of assignment targets from expressions.
    """
    # The type of node should be Union[ast.Assign, ast.Tuple, ast.Attribute, ast.Name, ast.Call]
    if isinstance(node, ast.Name):
        return [LocalVar(node.id)]
    if isinstance(node, ast.Assign):
        return [lv for target in node.targets for lv in get_assign_targets(target)]
    if isinstance(node, ast.Tuple):
        return [lv for elt in node.elts for lv in get_assign_targets(elt)]
    if isinstance(node, ast.Attribute):
        # Just get the top id, not the full paths
        return get_assign_targets(node.value)
    if isinstance(node, ast.Call):
        return get_assign_targets(node.func)
    _logger.warning(
        "Expected assignment object to be of type Tuple or Name in AST, got %s: %s",
        type(node),
        node,
    )
    return []
    # TODO: configurable behaviour about such issues. It is indicative of an issue in most cases.
    # raise DDSException(
    #     f"Expected assignment object to be of type Tuple or Name in AST, got {type(node)}: {pformat(node)}",
    #     error_code=DDSErrorCode.UNKNOWN_AST_NODE,
    # )


def _fis_to_siglist(fis: List[FunctionInteractions]) -> List[Tuple[HK, PyHash]]:
    # Including an index in the case of the function interactions.
    # There may be multiple function calls to the same function, and the current
    # hashing algorithm does not allow duplicates of the same elements (they get xor'd out).
    # The penalty to pay for indexing is that adding or removing function calls may
    # introduce a reindexing and hence a recomputation of a few hashes.
    # Since this is limited to a single function, this is not considered to have a large impact.
    return [(HK(f"fun_dep_{idx}"), i.fun_return_sig) for (idx, i) in enumerate(fis)]


def _all_paths(fis: FunctionInteractions) -> Set[CanonicalPath]:
    res: Set[CanonicalPath] = {fis.fun_path}
    for fis0 in fis.parsed_body:
        res.update(_all_paths(fis0))
    return res


def _introspect_class(
    c: type,
    arg_ctx: FunctionArgContext,
    gctx: EvalMainContext,
    call_stack: List[CanonicalPath],
    debug: bool = False,
) -> FunctionInteractions:
    # Check if the function has already been evaluated.
    fun_path = function_path(c)
    arg_ctx_hash = FunctionArgContext.as_hashable(arg_ctx)

    # TODO: add to the global interactions cache

    fun_module = inspect.getmodule(c)
    if fun_module is None:
        raise DDSException(
            f"Could not find module: class:{c} module: {fun_module}",
            DDSErrorCode.MODULE_NOT_FOUND,
        )
    # _logger.debug(f"_introspect: {f}: fun_path={fun_path} fun_module={fun_module}")
    fis_key = (fun_path, arg_ctx_hash)
    fis_ = gctx.cached_fun_interactions.get(fis_key)
    if fis_ is not None:
        return fis_
    src = getsource_class(c)
    # _logger.debug(f"Starting _introspect_class: {c}: src={src}")
    ast_src = ast.parse(src)
    ast_f: ast.ClassDef = ast_src.body[0]  # type: ignore
    assert isinstance(ast_f, ast.ClassDef), type(ast_f)
    if debug:
        _logger.debug(f"_introspect ast_src:\n {pformat(ast_f)}")
    body_lines = src.split("\n")

    # For each of the functions in the body, look for interactions.
    fis = InspectFunction.inspect_class(
        ast_f, gctx, fun_module, body_lines, arg_ctx, fun_path, call_stack
    )
    # Cache the function interactions
    gctx.cached_fun_interactions[fis_key] = fis
    # cache the function interactions in the global context
    if _global_context is not None:
        dep_paths = sorted(_all_paths(fis))
        _global_context.cached_fun_calls[(fun_path, arg_ctx_hash)] = dep_paths
        # Find the id of each corresponding object
        obj_ids: List[Tuple[CanonicalPath, PythonId]] = []
        for dep_path in dep_paths:
            obj = ObjectRetrieval.retrieve_object_global(dep_path, gctx)
            obj_ids.append((dep_path, PythonId(id(obj))))
        # tup = tuple(obj_ids)
        # _logger.debug(f"cached_fun_interactions: {(fun_path, arg_ctx_hash, tup)}")
        # _global_context.cached_fun_interactions[(fun_path, arg_ctx_hash, tup)] = fis
    return fis


def _introspect(
    obj: Union[FunctionType, type],
    arg_ctx: FunctionArgContext,
    gctx: EvalMainContext,
    call_stack: List[CanonicalPath],
) -> FunctionInteractions:
    if isinstance(obj, FunctionType):
        return _introspect_fun(obj, arg_ctx, gctx, call_stack)
    if isinstance(obj, type):
        return _introspect_class(obj, arg_ctx, gctx, call_stack)
    raise DDSException(
        f"Expected function or class, got object of type {type(obj)} instead: {obj}"
    )


def _introspect_fun(
    f: FunctionType,
    arg_ctx: FunctionArgContext,
    gctx: EvalMainContext,
    call_stack: List[CanonicalPath],
) -> FunctionInteractions:
    # Check if the function has already been evaluated.
    fun_path = function_path(f)
    arg_ctx_hash = FunctionArgContext.as_hashable(arg_ctx)
    # In most cases, lambda functions will change id's each time. Skipping for now.
    if (
        not is_lambda(f)
        and _global_context is not None
        and (fun_path, arg_ctx_hash) in _global_context.cached_fun_calls
    ):
        dep_paths = _global_context.cached_fun_calls[(fun_path, arg_ctx_hash)]
        # _logger.debug(
        #     f"{fun_path} in cache, evaluating if {len(dep_paths)} python objects have changed"
        # )
        ids: List[Tuple[CanonicalPath, PythonId]] = []
        for dep_path in dep_paths:
            obj = ObjectRetrieval.retrieve_object_global(dep_path, gctx)
            ids.append((dep_path, PythonId(id(obj))))
        tup = tuple(ids)
        if (fun_path, arg_ctx_hash, tup) in _global_context.cached_fun_interactions:
            # _logger.debug(
            #     f"{fun_path} in interaction cache, skipping analysis: {(fun_path, arg_ctx_hash, tup)}"
            # )
            return _global_context.cached_fun_interactions[
                (fun_path, arg_ctx_hash, tup)
            ]
        else:
            _logger.debug(
                f"{fun_path} not in global interaction cache, objects have changed since loading"
            )

    fun_module = inspect.getmodule(f)
    if fun_module is None:
        raise DDSException(
            f"Could not find module: f; {f} module: {fun_module}",
            DDSErrorCode.MODULE_NOT_FOUND,
        )
    # _logger.debug(f"_introspect: {f}: fun_path={fun_path} fun_module={fun_module}")
    ast_f: Union[ast.Lambda, ast.FunctionDef]
    if is_lambda(f):
        # _logger.debug(f"_introspect: is_lambda: {f}")
        src = inspect.getsource(f)
        h = dds_hash(src)
        # Have a stable name for the lambda function
        fun_path = CanonicalPath(
            fun_path._path.parent.joinpath(fun_path._path.stem + h)
        )
        fis_key = (fun_path, arg_ctx_hash)
        fis_ = gctx.cached_fun_interactions.get(fis_key)
        if fis_ is not None:
            return fis_
        # Not seen before, continue.
        # _logger.debug(f"_introspect: is_lambda: fun_path={fun_path} src={src}")
        ast_f = inspect_lambda_condition(f)
        assert isinstance(ast_f, ast.Lambda), type(ast_f)
        # _logger.debug(f"_introspect: is_lambda: {ast_f}")
    else:
        fis_key = (fun_path, arg_ctx_hash)
        fis_ = gctx.cached_fun_interactions.get(fis_key)
        if fis_ is not None:
            return fis_
        src = inspect.getsource(f)
        # _logger.debug(f"Starting _introspect: {f}: src={src}")
        ast_src = ast.parse(src)
        ast_f = ast_src.body[0]  # type: ignore
        assert isinstance(ast_f, ast.FunctionDef), type(ast_f)
        # _logger.debug(f"_introspect ast_src:\n {pformat(ast_f)}")
    body_lines = src.split("\n")

    fis = InspectFunction.inspect_fun(
        ast_f, gctx, fun_module, body_lines, arg_ctx, fun_path, call_stack
    )
    # Cache the function interactions
    gctx.cached_fun_interactions[fis_key] = fis
    # Register the path as a potential link to dependencies
    if fis.store_path:
        gctx.resolved_references[fis.store_path] = fis.fun_return_sig
    # cache the function interactions in the global context
    if not is_lambda(f) and _global_context is not None:
        dep_paths = sorted(_all_paths(fis))
        _global_context.cached_fun_calls[(fun_path, arg_ctx_hash)] = dep_paths
        # Find the id of each corresponding object
        obj_ids: List[Tuple[CanonicalPath, PythonId]] = []
        for dep_path in dep_paths:
            obj = ObjectRetrieval.retrieve_object_global(dep_path, gctx)
            obj_ids.append((dep_path, PythonId(id(obj))))
        # tup = tuple(obj_ids)
        # _logger.debug(f"cached_fun_interactions: {(fun_path, arg_ctx_hash, tup)}")
        # _global_context.cached_fun_interactions[(fun_path, arg_ctx_hash, tup)] = fis
    return fis


class IntroVisitor(ast.NodeVisitor):
    def __init__(
        self,
        start_mod: ModuleType,
        gctx: EvalMainContext,
        function_body_lines: List[str],
        function_input_sig: PyHash,
        function_var_names: Set[LocalVar],
        call_stack: List[CanonicalPath],
        fun_path: CanonicalPath,
    ):
        # TODO: start_mod is in the global context
        current_fun_name = LocalVar(CanonicalPathUtils.last(fun_path))
        self._start_mod = start_mod
        self._gctx = gctx
        self._function_var_names = set(function_var_names)
        self._body_lines = function_body_lines
        self._input_sig = function_input_sig
        self._call_stack = call_stack
        self._store_names: Set[LocalVar] = {current_fun_name}
        self.inters: List[FunctionInteractions] = []
        self.load_paths: List[DDSPath] = []

    def visit_Call(self, node: ast.Call) -> Any:
        # _logger.debug(f"visit_Call: {node} {dir(node)} {pformat(node)}")
        # We have visited this call. No need to look at it by-name anymore.
        n = IntroVisitor._get_call_name(node)
        # _logger.debug(f"visit_call: call name is {n}")
        if n is not None:
            self._store_names.add(n)
        # This is a bit brute-force but it should be good enough in practice for most cases:
        # all the lines of the function up to the end of the call (a call may span several lines).
        # TODO: refine it based of the nested parse tree?
        last_line = max(node.lineno + 1, getattr(node, "end_lineno", None) or 0)
        function_body_hash = dds_hash(self._body_lines[:last_line])
        # The list of all the previous interactions.
        # This enforces the concept that the current call depends on previous calls.
        function_inters_sig: Optional[PyHash] = dds_hash_commut(
            _fis_to_siglist(self.inters)
        )
        # Check the call for dds calls or sub_calls.
        fi_or_p = InspectFunction.inspect_call(
            node,
            self._gctx,
            self._start_mod,
            function_body_hash,
            self._input_sig,
            function_inters_sig,
            self._function_var_names,
            self._call_stack,
        )
        if fi_or_p is not None and isinstance(fi_or_p, FunctionInteractions):
            self.inters.append(fi_or_p)
        # str is the underlying type of a DDSPath
        if fi_or_p is not None and isinstance(fi_or_p, str):
            if fi_or_p not in self._gctx.resolved_references:
                # Neither committed in the store nor kept by a call that comes before this one.
                raise DDSException(
                    f"The path {fi_or_p} is loaded before it is produced: it is kept later in the "
                    f"same evaluation. Suggestion: call the function that keeps {fi_or_p} before "
                    f"loading it. Call stack: {self._call_stack}",
                    DDSErrorCode.STORE_PATH_NOT_FOUND,
                )
            self.load_paths.append(fi_or_p)
        self.generic_visit(node)

    def visit_Assign(self, node: ast.Assign) -> Any:
        targets = get_assign_targets(node)
        if targets:
            self._store_names.update(targets)
        self.generic_visit(node)

    def visit_Name(self, node: ast.Name) -> Any:
        # _logger.debug(f"visit_name0: {node} {pformat(node)} {self._store_names}")
        # Look at names of variables that are names imported in the context of the function (in the module) but that are
        # not builtins.
        # This neglects the case of shadowing within the function: if the function has a variable that has the same name
        # as another function, then a mismatch will happen.
        if (
            node.id in self._start_mod.__dict__
            and node.id not in python_builtin_names
            and LocalVar(node.id) not in self._function_var_names
            and LocalVar(node.id) not in self._store_names
        ):
            # Quick check that it is indeed a function or a module:
            # TODO: add a test for modules
            obj = self._start_mod.__dict__[node.id]
            self._store_names.add(LocalVar(node.id))
            # Just handling functions, not modules.
            # Handling modules is more complicated (requires tracing the full call) and it can be easily worked around
            # by directly importing the function.
            if isinstance(obj, (FunctionType,)):
                # Building a fake AST node to handle functions called without arguments. They may not
                _logger.debug(f"visit_name: {node} {pformat(node)} {self._store_names}")
                # No arg given
                call_node = ast.Call(
                    func=node, args=[], keywords=[], starargs=None, kwargs=None
                )
                # This is a bit brute-force (not working for multi-line function calls)
                # but it should be good enough in practice for most cases.
                # TODO: refine it based of the nested parse tree?
                function_body_hash = dds_hash(self._body_lines[: node.lineno + 1])
                # The list of all the previous interactions.
                # This enforces the concept that the current call depends on previous calls.
                function_inters_sig: Optional[PyHash] = dds_hash_commut(
                    _fis_to_siglist(self.inters)
                )
                # Check the call for dds calls or sub_calls.
                fi_or_p = InspectFunction.inspect_call(
                    call_node,
                    self._gctx,
                    self._start_mod,
                    function_body_hash,
                    self._input_sig,
                    function_inters_sig,
                    self._function_var_names,
                    self._call_stack,
                )
                if fi_or_p is not None and isinstance(fi_or_p, FunctionInteractions):
                    self.inters.append(fi_or_p)
                # str is the underlying type of a DDSPath
                if fi_or_p is not None and isinstance(fi_or_p, str):
                    self.load_paths.append(fi_or_p)

        self.generic_visit(node)

    @staticmethod
    def _get_call_name(node: ast.expr) -> Optional[LocalVar]:
        if isinstance(node, ast.Call):
            return IntroVisitor._get_call_name(node.func)
        if isinstance(node, ast.Attribute):
            return IntroVisitor._get_call_name(node.value)
        if isinstance(node, ast.Name):
            return LocalVar(node.id)
        return None


class ExternalVarsVisitor(ast.NodeVisitor):
    """
    Finds all the external variables of a function that should be hashed into the argument list.
    TODO: currently very crude, it does not look for assigned variables.
    """

    def __init__(
        self, start_mod: ModuleType, gctx: EvalMainContext, local_vars: Set[LocalVar]
    ):
        self._start_mod = start_mod
        self._gctx = gctx
        self._local_vars = local_vars
        # TODO: rename to deps
        self.vars: Dict[LocalDepPath, ExternalDep] = {}
        # All the dependencies that are encountered but do not lead to an external dep.
        self._rejected_paths: Set[LocalDepPath] = set()

    def visit_Name(self, node: ast.Name, debug: bool = False) -> Any:
        local_dep_path = LocalDepPath(PurePosixPath(node.id))
        if debug:
            _logger.debug(
                "ExternalVarsVisitor:visit_Name: id: %s local_dep_path:%s",
                node.id,
                local_dep_path,
            )
        if not isinstance(node.ctx, ast.Load):
            if debug:
                _logger.debug(
                    "ExternalVarsVisitor:visit_Name: id: %s skipping ctx: %s",
                    node.id,
                    node.ctx,
                )
            return
        # If it is a var that is already part of the function, do not introspect
        if len(local_dep_path.parts) == 1:
            v = str(local_dep_path)
            if v in self._local_vars:
                if debug:
                    _logger.debug(
                        "ExternalVarsVisitor:visit_Name: id: %s skipping, in vars",
                        node.id,
                    )
                return
        if local_dep_path in self.vars or local_dep_path in self._rejected_paths:
            return
        # TODO: this will fail in submodule
        # if str(local_dep_path) not in self._start_mod.__dict__ or str(local_dep_path) not in self._gctx.start_globals:
        #     _logger.debug(
        #         f"ExternalVarsVisitor:visit_Name: local_dep_path {local_dep_path} "
        #         f"not found in module {self._start_mod}: \n{self._start_mod.__dict__.keys()} \nor in start_globals: {self._gctx.start_globals}"
        #     )
        #     return
        res: ObjectRetrievalType = ObjectRetrieval.retrieve_object(
            local_dep_path, self._start_mod, self._gctx
        )
        if debug:
            _logger.debug(f"visit_Name: {local_dep_path} {self._start_mod} -> {res}")
        if res is None:
            # Nothing to do, it is not interesting.
            if debug:
                _logger.debug("visit_Name: %s: skipping (unauthorized)", local_dep_path)
            self._rejected_paths.add(local_dep_path)
            return
        elif isinstance(res, ExternalObject):
            # External object. Should be tracked at name level
            self.vars[local_dep_path] = ExternalDep(
                local_path=local_dep_path, path=res.resolved_path, sig=None
            )
        else:
            assert isinstance(res, AuthorizedObject)
            (obj, path) = (res.object_val, res.resolved_path)
            if isinstance(obj, FunctionType):
                # Modules and callables are tracked separately
                # _logger.debug(f"visit name %s: skipping (fun)", local_dep_path)
                self._rejected_paths.add(local_dep_path)
                return
            if isinstance(obj, ModuleType):
                # Modules and callables are tracked separately
                # TODO: this is not accurate, as a variable could be called in a submodule
                # _logger.debug(f"visit name %s: skipping (module)", local_dep_path)
                self._rejected_paths.add(local_dep_path)
                return
            if inspect.isclass(obj):
                # Classes are tracked separately
                # _logger.debug(f"visit name %s: skipping (class)", local_dep_path)
                self._rejected_paths.add(local_dep_path)
                return
            sig = self._gctx.get_hash(path, obj)
            self.vars[local_dep_path] = ExternalDep(
                local_path=local_dep_path, path=path, sig=sig
            )


class LocalVarsVisitor(ast.NodeVisitor):
    """
    A brute-force attempt to find all the variables defined in the scope of a module.
    """

    def __init__(self, existing_vars: List[str], fun_path: CanonicalPath):
        self.vars: Set[str] = set(existing_vars)
        self._fun_path = fun_path

    def visit_AsyncFunctionDef(self, node: ast.AsyncFunctionDef) -> Any:
        raise DDSException(
            f"Function {self._fun_path} rejected by DDS because it includes a call to an "
            f"async function. You cannot use async function with DDS",
            DDSErrorCode.CONSTRUCT_NOT_SUPPORTED,
        )

    def visit_Name(self, node: ast.Name) -> Any:
        # _logger.debug(f"visit_vars: {node.id} {node.ctx}")
        if isinstance(node.ctx, ast.Store):
            self.vars.add(node.id)
        self.generic_visit(node)


def _function_name(node: ast.AST) -> List[str]:
    if isinstance(node, ast.Name):
        return [node.id]
    if isinstance(node, ast.BinOp):
        return [type(node).__name__.split(".")[-1]]
    if isinstance(node, ast.Attribute):
        return _function_name(node.value) + [node.attr]
    if isinstance(node, ast.Call):
        return _function_name(node.func)
    if isinstance(node, (ast.Constant, ast.NameConstant)):
        s = str(node.value)
        s = s[:4]
        return [f"Str({s}...)"]
    # TODO: these names are just here to make sure that a valid function name is returned
    # They should not be returned: this name will never be found amongst the functions.
    if isinstance(node, ast.Str):
        s = str(node.s)
        s = s[:4]
        return [f"Str({s}...)"]
    types = [
        ast.Subscript,
        ast.Compare,
        ast.UnaryOp,
        ast.BoolOp,
        ast.IfExp,
        ast.Subscript,
        ast.Index,
        ast.Slice,
        ast.ExtSlice,
    ]
    for t in types:
        if isinstance(node, t):
            return [t.__name__]
    _logger.error(
        f"Cannot understand nodes of type {type(node)}. Syntax tree: {pformat(node)}"
    )
    assert False, (node, type(node))


class InspectFunction(object):
    @classmethod
    def get_local_vars(
        cls,
        body: Sequence[ast.AST],
        arg_ctx: FunctionArgContext,
        fun_path: CanonicalPath,
    ) -> List[LocalVar]:
        lvars_v = LocalVarsVisitor(list(arg_ctx.named_args.keys()), fun_path)
        for node in body:
            lvars_v.visit(node)
        lvars = sorted(list(lvars_v.vars))
        # _logger.debug(f"local vars: %s", lvars)
        return [LocalVar(s) for s in lvars]

    @classmethod
    def inspect_class(
        cls,
        node: ast.ClassDef,
        gctx: EvalMainContext,
        mod: ModuleType,
        class_body_lines: List[str],
        arg_ctx: FunctionArgContext,
        fun_path: CanonicalPath,
        call_stack: List[CanonicalPath],
    ) -> FunctionInteractions:
        # Look into the base classes first.
        # TODO: take into account the base classes

        # All the body is considered as a single big function for the purpose of
        # code structure: the function interactions are built for each element,
        # but the code lines are provided from the top of the function.

        method_fis: List[FunctionInteractions] = []
        for elem in node.body:
            if isinstance(elem, ast.FunctionDef):
                # Parsing the function call
                fis_ = cls.inspect_fun(
                    elem, gctx, mod, class_body_lines, arg_ctx, fun_path, call_stack
                )
                if fis_ is not None:
                    method_fis.append(fis_)
                    # _logger.debug(f"inspect_class: {fis_}")

        body_sig = dds_hash(class_body_lines)
        # All the sub-dependencies are handled with method introspections

        return_sig = dds_hash_commut(
            [(_hash_key_body_sig, body_sig)] + _fis_to_siglist(method_fis)
        )
        assert return_sig is not None

        return FunctionInteractions(
            arg_input=arg_ctx,
            fun_body_sig=body_sig,
            fun_return_sig=return_sig,
            # The dependencies are for now all in the function bodies
            external_deps=[],
            parsed_body=method_fis,
            store_path=None,  # No store path can be associated by default to a class
            fun_path=fun_path,
            indirect_deps=[],
        )

    @classmethod
    def inspect_fun(
        cls,
        node: Union[ast.FunctionDef, ast.Lambda],
        gctx: EvalMainContext,
        mod: ModuleType,
        function_body_lines: List[str],
        arg_ctx: FunctionArgContext,
        fun_path: CanonicalPath,
        call_stack: List[CanonicalPath],
        debug: bool = False,
    ) -> FunctionInteractions:
        body: Sequence[ast.AST]
        if isinstance(node, ast.FunctionDef):
            body = node.body
        elif isinstance(node, ast.Lambda):
            body = [node.body]
        else:
            raise DDSException(f"unknown ast node {type(node)}")
        local_vars = set(cls.get_local_vars(body, arg_ctx, fun_path))
        # _logger.debug(f"inspect_fun: %s local_vars: %s", fun_path, local_vars)
        vdeps = ExternalVarsVisitor(mod, gctx, local_vars)
        for n in body:
            vdeps.visit(n)
        ext_deps = sorted(vdeps.vars.values(), key=lambda ed: ed.local_path)
        if debug:
            _logger.debug("inspect_fun: ext_deps: %s", ext_deps)

        # The variables that are hashable: authorized variables outside of the function
        sig_variables: List[Tuple[LocalDepPath, PyHash]] = [
            (ed.local_path, ed.sig) for ed in ext_deps if ed.sig is not None
        ]
        sig_variables_distinct: Dict[LocalDepPath, PyHash] = dict(sig_variables)
        # External dependencies
        ext_deps_vars: Dict[LocalDepPath, CanonicalPath] = dict(
            [(ed.local_path, ed.path) for ed in ext_deps if ed.sig is None]
        )
        if debug:
            _logger.debug("inspect_fun: ext_deps_vars: %s", ext_deps_vars)
        input_sig = _build_return_sig(
            # The body signature will depend on the exact location of the function calls
            body_sig=None,
            arg_ctx=arg_ctx,
            # TODO: does it also need the indirect deps here?
            indirect_deps={},
            # Sub function interactions are processed one at
            # a time inside the function.
            sub_fis=[],
            ext_deps=ext_deps_vars,
            ext_vars=sig_variables_distinct,
        ) or dds_hash([])
        calls_v = IntroVisitor(
            mod, gctx, function_body_lines, input_sig, local_vars, call_stack, fun_path
        )
        for n in body:
            calls_v.visit(n)
        body_sig = dds_hash(function_body_lines)
        # Remove duplicates but keep the order in the list of paths:
        indirect_dep = _no_dups(calls_v.load_paths)

        def fetch(dep: DDSPath) -> PyHash:
            key = gctx.resolved_references.get(dep)
            if key is None:
                raise DDSException(
                    f"Function {fun_path} loads the path {dep} before it is produced: {dep} is kept "
                    f"later in the same evaluation. Suggestion: call the function that keeps {dep} "
                    f"before loading it. Call stack: {call_stack}",
                    DDSErrorCode.STORE_PATH_NOT_FOUND,
                )
            return key

        indirect_deps_sigs = dict([(dep, fetch(dep)) for dep in indirect_dep])

        # Look at the annotations to see if there is a reference to a data_function
        if isinstance(node, ast.FunctionDef):
            store_path = cls._path_annotation(node, mod, gctx)
        else:
            store_path = None
        # _logger.debug(f"inspect_fun: path from annotation: %s", store_path)
        return_sig = _build_return_sig(
            body_sig=body_sig,
            arg_ctx=arg_ctx,
            indirect_deps=indirect_deps_sigs,
            sub_fis=calls_v.inters,
            ext_deps=ext_deps_vars,
            ext_vars=sig_variables_distinct,
        )
        assert return_sig is not None

        return FunctionInteractions(
            arg_input=arg_ctx,
            fun_body_sig=body_sig,
            fun_return_sig=return_sig,
            external_deps=ext_deps,
            parsed_body=calls_v.inters,
            store_path=store_path,
            fun_path=fun_path,
            indirect_deps=indirect_dep,
        )

    @classmethod
    def _path_annotation(
        cls,
        node: ast.FunctionDef,
        mod: ModuleType,
        gctx: EvalMainContext,
        debug: bool = False,
    ) -> Optional[DDSPath]:
        for dec in node.decorator_list:
            if isinstance(dec, ast.Call):
                local_path = LocalDepPath(
                    PurePosixPath("/".join(_function_name(dec.func)))
                )
                # _logger.debug(f"_path_annotation: local_path: %s", local_path)
                z: ObjectRetrievalType = ObjectRetrieval.retrieve_object(
                    local_path, mod, gctx
                )
                if debug:
                    _logger.debug(f"z: {z}")
                if z is None or isinstance(z, ExternalObject):
                    if debug:
                        _logger.debug(
                            f"_path_annotation: local_path: %s is rejected", local_path
                        )
                    return None
                assert isinstance(z, AuthorizedObject)
                caller_fun_path = z.resolved_path
                # _logger.debug(f"_path_annotation: caller_fun_path: %s", caller_fun_path)
                if caller_fun_path == CanonicalPathUtils.from_list(
                    ["dds", "_annotations", "dds_function"]
                ) or caller_fun_path == CanonicalPathUtils.from_list(
                    ["dds", "_annotations", "data_function"]
                ):
                    if len(dec.args) != 1:
                        raise DDSException(
                            f"Wrong number of arguments for decorator: {pformat(dec)}"
                        )
                    store_path = cls._retrieve_store_path(
                        dec.args[0], mod, gctx, local_path
                    )
                    return store_path
        return None

    @classmethod
    def inspect_call(
        cls,
        node: ast.Call,
        gctx: EvalMainContext,
        mod: ModuleType,
        function_body_hash: PyHash,
        function_input_sig: PyHash,
        function_inter_hash: Optional[PyHash],
        var_names: Set[LocalVar],
        call_stack: List[CanonicalPath],
        debug: bool = False,
    ) -> Union[FunctionInteractions, DDSPath, None]:
        # _logger.debug(f"Inspect call:\n %s", pformat(node))

        local_path = LocalDepPath(PurePosixPath("/".join(_function_name(node.func))))
        # _logger.debug(f"inspect_call: local_path: %s", local_path)
        # We may do sub-method calls on an object -> filter out based on the name of the object
        if str(local_path.parts[0]) in var_names:
            # _logger.debug(
            #     f"inspect_call: local_path: %s is rejected (head in vars)", local_path
            # )
            return None

        # _logger.debug(f"inspect_call:local_path:{local_path} mod:{mod}\n %s", pformat(node))
        z: ObjectRetrievalType = ObjectRetrieval.retrieve_object(local_path, mod, gctx)
        if debug:
            _logger.debug(f"inspect_call:local_path:{local_path} mod:{mod} z:{z}")
        if z is None or isinstance(z, ExternalObject):
            if debug:
                _logger.debug(f"inspect_call: local_path: %s is rejected", local_path)
            return None
        assert isinstance(z, AuthorizedObject)
        caller_fun, caller_fun_path = (z.object_val, z.resolved_path)
        if not isinstance(caller_fun, FunctionType) and not inspect.isclass(caller_fun):
            raise DDSException(
                f"Expected FunctionType or class for {caller_fun_path}, got {type(caller_fun)}",
                DDSErrorCode.UNSUPPORTED_CALLABLE_TYPE,
            )

        # Check if this is a call we should do something about.

        if caller_fun_path in call_stack:
            # Recursive calls are not supported currently.
            raise DDSException(
                f"Detected circular function calls or (co-)recursive calls."
                f"This is currently not supported. Change your code to split the "
                f"recursive section into a separate function. "
                f"Function: {caller_fun_path}"
                f"Call stack: {' '.join([str(p) for p in call_stack])}",
                DDSErrorCode.CIRCULAR_CALL,
            )

        elif caller_fun_path == CanonicalPathUtils.from_list(["dds", "load"]):
            # Evaluation call: get the argument and returns the function interaction for this call.
            if len(node.args) != 1:
                raise DDSException(f"Wrong number of args: expected 1, got {node.args}")
            store_path = cls._retrieve_store_path(node.args[0], mod, gctx, local_path)
            _logger.debug(f"inspect_call:eval: store_path: {store_path}")
            return store_path

        elif caller_fun_path == CanonicalPathUtils.from_list(["dds", "eval"]):
            raise DDSException(
                f"Cannot process {local_path}: this function is calling dds.eval, which"
                f" is not allowed inside other eval calls. Suggestion: remove the "
                f"call to dds.eval inside {local_path}",
                DDSErrorCode.EVAL_IN_EVAL,
            )

        # 2 cases left: normal call or kept call (normal call wrapped in ddd.keep())

        # The context signature that will be needed for these calls.
        context_sig = dds_hash_commut(
            [
                (_hash_key_body_sig, function_body_hash),
                (_hash_key_fun_input, function_input_sig),
            ]
            + (
                [(_hash_key_fun_inter, function_inter_hash)]
                if function_inter_hash is not None
                else []
            )
        )

        if caller_fun_path == CanonicalPathUtils.from_list(["dds", "keep"]):
            # Call to the keep function:
            # - bring the path
            # - bring the callee
            # - parse the arguments
            # - introspect the callee
            if len(node.args) < 2:
                raise DDSException(
                    f"Wrong number of args: expected 2+, got {node.args}"
                )
            store_path = cls._retrieve_store_path(node.args[0], mod, gctx, local_path)
            called_path_ast = node.args[1]
            if isinstance(called_path_ast, ast.Name):
                called_path_symbol = node.args[1].id  # type: ignore
            else:
                raise DDSException(
                    f"Introspection of {local_path} failed: cannot use nested callables of"
                    f" type {called_path_ast}. Only "
                    f"regular function names are allowed for now. Suggestion: if you are "
                    f"using a complex callable such as a method, wrap it inside a top-level "
                    f"function.",
                    DDSErrorCode.UNSUPPORTED_CALLABLE_TYPE,
                )
            called_local_path = LocalDepPath(PurePosixPath(called_path_symbol))
            called_z: ObjectRetrievalType = ObjectRetrieval.retrieve_object(
                called_local_path, mod, gctx
            )
            if debug:
                _logger.debug(f"called_z: {called_z}")
            if not called_z or isinstance(called_z, ExternalObject):
                # Not sure what to do yet in this case.
                raise DDSException(
                    f"Introspection of {local_path} failed: cannot access called function"
                    f" {called_local_path}. The function {called_local_path} was expected "
                    f"to be found in module {mod}, but could not be retrieved. The usual reason is"
                    f"that that this object is not a regular top-level function. "
                    f"Suggestion: ensure that this function is a top-level function.",
                    DDSErrorCode.UNSUPPORTED_CALLABLE_TYPE,
                )
            assert isinstance(called_z, AuthorizedObject)
            called_fun, call_fun_path = called_z.object_val, called_z.resolved_path
            if call_fun_path in call_stack:
                raise DDSException(
                    f"Detected circular function calls or (co-)recursive calls."
                    f"This is currently not supported. Change your code to split the "
                    f"recursive section into a separate function. "
                    f"Function: {call_fun_path}"
                    f"Call stack: {' '.join([str(p) for p in call_stack])}",
                    DDSErrorCode.CIRCULAR_CALL,
                )
            new_call_stack = call_stack + [call_fun_path]
            # TODO: this is an approximation as all the arguments may be keyworded.
            # This assumes that only the function's normal arguments are going to be keyworded.
            kwargs = OrderedDict([(n.arg, n.value) for n in node.keywords])
            # For now, accept the constant arguments. This is enough for some basic objects.
            arg_ctx = FunctionArgContext(
                named_args=get_arg_ctx_ast(called_fun, node.args[2:], kwargs),  # type: ignore
                inner_call_key=context_sig,
            )
            inner_intro = _introspect(called_fun, arg_ctx, gctx, new_call_stack)
            inner_intro = inner_intro._replace(store_path=store_path)
            # Register the path as a potential link to dependencies (loads later in this evaluation)
            gctx.resolved_references[store_path] = inner_intro.fun_return_sig
            return inner_intro

        # Normal function call.
        # Just introspect the function call.
        # For now, do not look carefully at the arguments, just parse the arguments of
        # the functions.
        # TODO: add more arguments if we can parse constant arguments
        arg_ctx = FunctionArgContext(
            named_args=get_arg_ctx_ast(caller_fun, [], OrderedDict()),
            inner_call_key=context_sig,
        )
        new_call_stack = call_stack + [caller_fun_path]
        return _introspect(caller_fun, arg_ctx, gctx, new_call_stack)

    @classmethod
    def _retrieve_store_path(
        cls,
        local_path_node: ast.AST,
        mod: ModuleType,
        gctx: EvalMainContext,
        local_path: LocalDepPath,
    ) -> DDSPath:
        if isinstance(local_path_node, ast.Constant):
            # Just a string, directly access it.
            return DDSPathUtils.create(local_path_node.value)
        elif isinstance(local_path_node, ast.Str):
            # Just a string, directly access it.
            return DDSPathUtils.create(local_path_node.s)
        elif isinstance(local_path_node, ast.Name):
            store_path_symbol = local_path_node.id
        else:
            raise DDSException(
                f"Invalid path type: {type(local_path_node)} encountered in {local_path} (module {mod}). "
                f"Suggestion: the path to a node can only be a string, a Path object or a "
                f"variable name that points to a string or Path object. "
                f"See the documentation for more details."
                f"Full parse tree: {pformat(local_path_node)}",
                DDSErrorCode.STORE_PATH_NOT_SUPPORTED,
            )
        # _logger.debug(
        #     f"Keep: store_path_symbol: %s %s",
        #     store_path_symbol,
        #     type(store_path_symbol),
        # )
        store_path_local_path = LocalDepPath(PurePosixPath(store_path_symbol))
        # Retrieve the store path value and the called function
        store_z: ObjectRetrievalType = ObjectRetrieval.retrieve_object(
            store_path_local_path, mod, gctx
        )
        if not store_z or isinstance(store_z, ExternalObject):
            # Not sure what to do yet in this case.
            raise DDSException(
                f"Invalid path {store_path_local_path} encountered in {local_path} (module {mod}). "
                f"Suggestion: the path to a node can only be a string, a Path object or a "
                f"variable name that points to a string or Path object. "
                f"See the documentation for more details."
                f"Full parse tree: {pformat(local_path_node)}",
                DDSErrorCode.STORE_PATH_NOT_SUPPORTED,
            )
        store_path = store_z.object_val
        return DDSPathUtils.create(store_path)


def _no_dups(paths: List[DDSPath]) -> List[DDSPath]:
    """
    Removes duplicate while keeping the order.
    """
    s = set()
    res = []
    for p in paths:
        if p not in s:
            s.add(p)
            res.append(p)
    return res


def _build_return_sig(
    body_sig: Optional[PyHash],
    arg_ctx: FunctionArgContext,
    indirect_deps: Dict[DDSPath, PyHash],
    sub_fis: List[FunctionInteractions],
    ext_deps: Dict[LocalDepPath, CanonicalPath],
    ext_vars: Dict[LocalDepPath, PyHash],
) -> Optional[PyHash]:
    """
    Builds a key from the content of a function.

    This function builds an cryptographically secure hash of the content of
    a function by combining the following elements of the function:
    - body_sig -> the body signature (hashing the text of the body)
    - the map of the indirect dependencies:
        dep_{path} -> hash
    - the list of all sub-function calls
    - the input signature of the
    - the external dependencies:
        map of symbol name -> fully qualified path in the module hierarchy
    - the external variables:
        map of symbol name -> hash of the content of the function
    - the arguments of the function:
        map of arg_name -> signature of the input

    These elements are combined using the commutative hash function.
    """
    body: List[Tuple[HK, PyHash]] = (
        [] if body_sig is None else [(_hash_key_body_sig, body_sig)]
    )
    arg: List[Tuple[HK, PyHash]]
    if any(sig is None for sig in arg_ctx.named_args.values()):
        assert arg_ctx.inner_call_key is not None, f"{arg_ctx} {body_sig}"
        arg = [(HK("arg_context"), arg_ctx.inner_call_key)]
    else:
        arg = [
            (HK(f"arg_{name}"), cast(PyHash, sig))
            for (name, sig) in arg_ctx.named_args.items()
        ]
    all_pairs: List[Tuple[HK, PyHash]] = (
        body
        + arg
        + [(HK(f"dep_{dep}"), sig_) for (dep, sig_) in indirect_deps.items()]
        + _fis_to_siglist(sub_fis)
        + [
            (HK(f"ext_dep_{local_path}"), dds_hash(sig))
            for (local_path, sig) in ext_deps.items()
        ]
        + [
            (HK(f"ext_variable_{local_path}"), sig)
            for (local_path, sig) in ext_vars.items()
        ]
    )
    if not all_pairs:
        return None
    return dds_hash_commut(all_pairs)


def _new_getfile(obj, _old_getfile=inspect.getfile):
    if not inspect.isclass(obj):
        return _old_getfile(obj)

    # Lookup by parent module (as in current inspect)
    if hasattr(obj, "__module__"):
        object_ = sys.modules.get(obj.__module__)
        if hasattr(object_, "__file__"):
            return object_.__file__  # type: ignore

    # If parent module is __main__, lookup by methods (NEW)
    for _, member in inspect.getmembers(obj):
        if (
            inspect.isfunction(member)
            and obj.__qualname__ + "." + member.__name__ == member.__qualname__
        ):
            return inspect.getfile(member)
    else:
        raise TypeError("Source for {!r} not found".format(obj))


def getsource_class(c: type) -> str:
    """
    Returns the source code of a class. It is extra complicated because the
    inspect module fails for classes defined in a jupyter notebook.

    The original solution was written here:
    https://stackoverflow.com/questions/51566497/getting-the-source-of-an-object-defined-in-a-jupyter-notebook
    """

    def extract_jupyter(e: Exception) -> str:
        # Not in a jupyter context, no need to try the jupyter fallback.
        if extract_symbols is None:
            raise e
        lines = inspect.linecache.getlines(_new_getfile(c))  # type: ignore
        cell_code = "".join(lines)
        class_code: str = extract_symbols(cell_code, c.__name__)[0][0]  # type: ignore
        return class_code

    try:
        return inspect.getsource(c)
    except TypeError as e:
        return extract_jupyter(e)
    except OSError as e:
        # Different exception with python 3.10+
        return extract_jupyter(e)


_accepted_packages: Set[Package] = {
    Package("dds"),
    Package("__main__"),
    Package("__global__"),
}


def accept_module(module: Union[str, ModuleType]) -> None:
    global _accepted_packages
    if isinstance(module, ModuleType):
        module = module.__name__
    assert isinstance(module, str), (module, type(module))
    _accepted_packages.add(Package(module))
