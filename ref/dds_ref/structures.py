from collections import OrderedDict
from dataclasses import dataclass
from enum import Enum, IntEnum
from pathlib import PurePath
from pathlib import PurePosixPath
from typing import Any, NewType, NamedTuple, Optional, Dict, List, Tuple


class ProcessingStage(str, Enum):
    """
    The processing stages by DDS:
    - analysis: parses all the functions and finds the functions that need to be evaluated
    - store_inspect: lists the new blobs that need to be added to the store (optional)
    - eval: evaluates the new blobs and pushes them to the store
    - path_commit: commit the paths to the store
    """

    ANALYSIS = "analysis"
    STORE_INSPECT = "store_inspect"
    EVAL = "eval"
    STORE_COMMIT = "store_commit"
    PATH_COMMIT = "path_commit"

    @staticmethod
    def all_phases() -> "List[ProcessingStage]":
        return [
            ProcessingStage.ANALYSIS,
            ProcessingStage.STORE_INSPECT,
            ProcessingStage.EVAL,
            ProcessingStage.STORE_COMMIT,
            ProcessingStage.PATH_COMMIT,
        ]


# A path to an object in the DDS store.
DDSPath = NewType("DDSPath", str)


# The hash of a python object
PyHash = NewType("PyHash", str)


class DDSErrorCode(IntEnum):
    EVAL_IN_EVAL = 1
    CIRCULAR_CALL = 2
    UNKNOWN_AST_NODE = 3
    MODULE_NOT_FOUND = 4
    FUNCTION_NO_MODULE = 5
    PROTOCOL_NOT_FOUND = 6
    TYPE_NOT_SUPPORTED = 7
    STORE_PATH_NOT_FOUND = 8
    PATH_NOT_ABSOLUTE = 9
    UNSUPPORTED_CALLABLE_TYPE = 10
    AUTHORIZED_TYPE_NOT_UNDERSTOOD = 11
    OBJECT_PATH_NOT_FOUND = 12
    CONSTRUCT_NOT_SUPPORTED = 13
    STORE_PATH_NOT_SUPPORTED = 14
    ARG_IN_DATA_FUNCTION = 15
    OVERLAPPING_PATH = 16
    UNKNOWN_OPTION = 17
    SEQUENCE_TOO_LONG = 18


class DDSException(BaseException):
    """
    The base exception for all the exceptions generated in DDS.
    """

    error_code: Optional[DDSErrorCode]

    def __init__(self, message: str, error_code: Optional[DDSErrorCode] = None):
        super(DDSException, self).__init__(message)
        self.error_code = error_code


class EvalContext(NamedTuple):
    """
    The evaluation context created when evaluating a call.
    """

    requested_paths: Dict[DDSPath, PyHash]

    stats_time: Dict[ProcessingStage, float]


# The name of a codec protocol.
ProtocolRef = NewType("ProtocolRef", str)

# A URI like wrapper to put stuff somewhere.
# The exact content and schema is determined by the store.
GenericLocation = NewType("GenericLocation", str)

CodecBackend = NewType("CodecBackend", str)

SupportedType = NewType("SupportedType", str)


class CodecProtocol(object):
    def ref(self) -> ProtocolRef:
        raise NotImplementedError()

    def handled_types(self) -> List[SupportedType]:
        """The list of types that this codec can handle"""
        raise NotImplementedError()

    def serialize_into(self, blob: Any, loc: GenericLocation) -> None:
        """
        Simple in-memory serialization
        """
        pass

    def deserialize_from(self, loc: GenericLocation) -> Any:
        """Simple in-memory deserialization"""
        raise NotImplementedError()


class FileCodecProtocol(object):
    """
    Simpler interface that just knows how to read and write a single file from a local file system.

    This file is expected to be read, written and deleted by the store.
    """

    def ref(self) -> ProtocolRef:
        raise NotImplementedError()

    def handled_types(self) -> List[SupportedType]:
        """The list of types that this codec can handle"""
        raise NotImplementedError()

    def serialize_into(self, blob: Any, loc: PurePath) -> None:
        """
        Puts the blob into the specified path. The path is assumed to be eventually filled with a file.
        """
        raise NotImplementedError()

    def deserialize_from(self, loc: PurePath) -> Any:
        """Simple in-memory deserialization"""
        raise NotImplementedError()


class BlobMetaData(NamedTuple):
    protocol: ProtocolRef
    # TODO: creation date?
    # TODO: cration date has been added


@dataclass(frozen=True, order=True)
class CanonicalPath:
    _path: PurePosixPath

    def __repr__(self):
        return f"<{self._path}>"


# The path of a local dependency from the perspective of a function, as read from the AST
# It is always a relative path without root.
LocalDepPath = NewType("LocalDepPath", PurePosixPath)

# The name of an argument of a function
ArgName = NewType("ArgName", str)


class ExternalDep(NamedTuple):
    """
    An external dependency to a function (not a function, this is tracked by FunctionInteraction)
    """

    # The local path, as called within the function
    local_path: LocalDepPath
    # The path of the object
    path: CanonicalPath
    # The signature of the object
    # The object only has a signature if it is an authorized object.
    # External objects do not have a signature.
    sig: Optional[PyHash]


FunctionArgContextHash = NewType(
    "FunctionArgContextHash",
    Tuple[Optional[PyHash], Tuple[Tuple[str, Optional[PyHash]], ...]],
)


class FunctionArgContext(NamedTuple):
    # The keys of the arguments that are known at call time
    named_args: "OrderedDict[ArgName, Optional[PyHash]]"
    # The key of the environment when calling the function
    inner_call_key: Optional[PyHash]

    @staticmethod
    def relevant_keys(fac: "FunctionArgContext") -> List[Tuple[ArgName, PyHash]]:
        keys = [(s, key) for (s, key) in fac.named_args.items()]
        if any([key is None for (_, key) in keys]):
            # Missing some keys in the named arguments -> rely on the inner call key for the hash
            # TODO: this should not be a bug because of the root context, but it would be good to check.
            return (
                []
                if fac.inner_call_key is None
                else [(ArgName("__context__"), fac.inner_call_key)]
            )
        else:
            return keys  # type: ignore

    @classmethod
    def as_hashable(cls, arg_ctx: "FunctionArgContext") -> FunctionArgContextHash:
        x: Tuple[Tuple[ArgName, Optional[PyHash]], ...] = tuple(
            arg_ctx.named_args.items()
        )
        return FunctionArgContextHash((arg_ctx.inner_call_key, x))


class FunctionInteractions(NamedTuple):
    arg_input: FunctionArgContext
    # The signature of the function (function body)
    fun_body_sig: PyHash
    # The signature of the return of the function (including the evaluated args)
    fun_return_sig: PyHash
    # The external dependencies
    # As a simplification, this is the list of all the dependencies from the body of the
    # function.
    # Unlike parsed_body, there is no incremental treatment.
    external_deps: List[ExternalDep]
    # In order, all the content from the parsed body of the function.
    # TODO: real type is FunctionInteractions but mypy does not support yet recursive types
    parsed_body: List["Any"]
    # The path, if the output is expected to be stored
    store_path: Optional[DDSPath]
    # The path of the function
    fun_path: CanonicalPath
    # The indirect dependencies from this function
    indirect_deps: List[DDSPath]


class FunctionIndirectInteractions(NamedTuple):
    """
    The representation of all the indirect calls.
    This is done as a preprocessing step to find all the calls that need to be resolved before calling the main
    introspection function that compute the FunctionInteractions.
    """

    fun_path: CanonicalPath
    store_path: Optional[DDSPath]
    # TODO: real type is Union[DDSPath, FunctionIndirectInteractions]
    # The DDSPath object correspond to load() calls, the other calls correspond to sub function calls.
    # They are kept in order of calling to validate the order of calls:
    # indirect calls with that refer to a function also executed must happen after the function has executed
    indirect_deps: List["Any"]
