# This file is copied and adapted from koalas's config system.

#
# Copyright (C) 2019 Databricks, Inc.
#
# Licensed under the Apache License, Version 2.0 (the "License");
# you may not use this file except in compliance with the License.
# You may obtain a copy of the License at
#
#     http://www.apache.org/licenses/LICENSE-2.0
#
# Unless required by applicable law or agreed to in writing, software
# distributed under the License is distributed on an "AS IS" BASIS,
# WITHOUT WARRANTIES OR CONDITIONS OF ANY KIND, either express or implied.
# See the License for the specific language governing permissions and
# limitations under the License.
#

"""
Infrastructure of options for Koalas.
"""
from typing import Union, Any, Tuple, Callable, List, Dict

from .structures import DDSException, DDSErrorCode


class Option:
    """
    Option class that defines an option with related properties.

    This class holds all information relevant to the one option. Also,
    Its instance can validate if the given value is acceptable or not.

    It is currently for internal usage only.

    Parameters
    ----------
    key: str, keyword-only argument
        the option name to use.
    doc: str, keyword-only argument
        the documentation for the current option.
    default: Any, keyword-only argument
        default value for this option.
    types: Union[Tuple[type, ...], type], keyword-only argument
        default is str. It defines the expected types for this option. It is
        used with `isinstance` to validate the given value to this option.
    check_func: Tuple[Callable[[Any], bool], str], keyword-only argument
        default is a function that always returns `True` with a empty string.
        It defines:
          - a function to check the given value to this option
          - the error message to show when this check is failed
        When new value is set to this option, this function is called to check
        if the given value is valid.

    Examples
    --------
    >>> option = Option(
    ...     key='option.name',
    ...     doc="this is a test option",
    ...     default="default",
    ...     types=(float, int),
    ...     check_func=(lambda v: v > 0, "should be a positive float"))

    >>> option.validate('abc')  # doctest: +NORMALIZE_WHITESPACE
    Traceback (most recent call last):
      ...
    ValueError: The value for option 'option.name' was <class 'str'>;
    however, expected types are [(<class 'float'>, <class 'int'>)].

    >>> option.validate(-1.1)
    Traceback (most recent call last):
      ...
    ValueError: should be a positive float

    >>> option.validate(1.1)
    """

    def __init__(
        self,
        *,
        key: str,
        doc: str,
        default: Any,
        types: Union[Tuple[type, ...], type] = str,
        check_func: Tuple[Callable[[Any], bool], str] = (lambda v: True, "")
    ):
        self.key = key
        self.doc = doc
        self.default = default
        self.types = types
        self.check_func = check_func

    def validate(self, v: Any) -> None:
        """
        Validate the given value and throw an exception with related information such as key.
        """
        if not isinstance(v, self.types):
            raise ValueError(
                "The value for option '%s' was %s; however, expected types are "
                "[%s]." % (self.key, type(v), str(self.types))
            )
        if not self.check_func[0](v):
            raise ValueError(self.check_func[1])


# Available options.
#

accept_list_option = Option(
    key="accept_list",
    doc=(
        "Accepts lists as objects. If true, lists are then traversed and their content is included in the signature"
        " (default true)"
    ),
    default=True,
    types=(bool,),
    check_func=(
        lambda v: True,
        "",
    ),
)

accept_dict_option = Option(
    key="accept_dict",
    doc=(
        "Accepts dictionaries as objects. If true, lists are then traversed and their content is included "
        "in the signature"
        " (default true)"
    ),
    default=True,
    types=(bool,),
    check_func=(
        lambda v: True,
        "",
    ),
)

extra_debug_option = Option(
    key="extra_debug",
    doc=(
        "Prints and evaluates extra debugging information. This information requires extra roundtrips to the "
        "storage backend. It is disabled by default to assist with debugging, but it can be disabled if "
        "I/O with the storage backend is an issue."
    ),
    default=True,
    types=(bool,),
    check_func=(
        lambda v: True,
        "",
    ),
)

_options: List[Option] = [
    extra_debug_option,
    accept_list_option,
    accept_dict_option,
    Option(
        key="hash.max_sequence_size",
        doc=(
            "This sets a maximum size to a sequence (list, dictionary, tuple) that can be processed by DDS. "
            "Larger sequences are considered 'big objects' and should be loaded through functions. "
        ),
        default=10000,
        types=(int, type(None)),
        check_func=(
            lambda v: v is None or v >= 0,
            "'display.max_rows' should be greater than or equal to 0.",
        ),
    ),
]

_options_dict: Dict[str, Option] = dict(
    zip((option.key for option in _options), _options)
)
_options_values: Dict[str, Any] = dict(
    ((option.key, option.default) for option in _options)
)


def show_options():
    """
    Make a pretty table that can be copied and pasted into public documentation.
    This is currently for an internal purpose.
    """

    import textwrap

    header = ["Option", "Default", "Description"]
    row_format = "{:<31} {:<14} {:<53}"

    print(row_format.format("=" * 31, "=" * 14, "=" * 53))
    print(row_format.format(*header))
    print(row_format.format("=" * 31, "=" * 14, "=" * 53))

    for option in _options:
        doc = textwrap.fill(option.doc, 53)
        formatted = "".join(
            [line + "\n" + (" " * 47) for line in doc.split("\n")]
        ).rstrip()
        print(row_format.format(option.key, repr(option.default), formatted))

    print(row_format.format("=" * 31, "=" * 14, "=" * 53))


def get_option(key: Union[Option, str], default: Union[Any, None] = None) -> Any:
    """
    Retrieves the value of the specified option.

    Parameters
    ----------
    key : str
        The key which should match a single option.
    default : object
        The default value if the option is not set yet.

    Returns
    -------
    result : the value of the option

    Raises
    ------
    DDSException : if no such option exists and the default is not provided
    """
    if isinstance(key, Option):
        return get_option(key.key)
    _check_option(key)
    if default is None:
        default = _options_dict[key].default
    _options_dict[key].validate(default)

    return _options_values[key]


def set_option(key: str, value: Any) -> None:
    """
    Sets the value of the specified option.

    Parameters
    ----------
    key : str
        The key which should match a single option.
    value : object
        New value of option.

    Returns
    -------
    None
    """
    _check_option(key)
    _options_dict[key].validate(value)
    _options_values[key] = value


def reset_option(key: str) -> None:
    """
    Reset one option to their default value.

    Pass "all" as argument to reset all options.

    Parameters
    ----------
    key : str
        If specified only option will be reset.

    Returns
    -------
    None
    """
    _check_option(key)
    _options_values[key] = _options_dict[key].default


def _check_option(key: str) -> None:
    if key not in _options_dict:
        raise DDSException(
            "No such option: '{}'. Available options are [{}]".format(
                key, ", ".join(list(_options_dict.keys()))
            ),
            DDSErrorCode.UNKNOWN_OPTION,
        )
