"""
Utilities related to structures
"""
import itertools
import logging
import pathlib
from collections import OrderedDict
from pathlib import PurePosixPath
from typing import Callable, Any, Optional, List, Tuple, Set
from typing import Union

from .structures import (
    DDSPath,
    DDSException,
    FunctionInteractions,
    PyHash,
    LocalDepPath,
    FunctionIndirectInteractions,
    SupportedType,
    CanonicalPath,
    DDSErrorCode,
)

_logger = logging.getLogger(__name__)


class DDSPathUtils(object):
    @staticmethod
    def create(p: Union[str, pathlib.Path]) -> DDSPath:
        if isinstance(p, str):
            if not p or p[0] != "/":
                raise DDSException(
                    f"Provided path {p} is not absolute. All paths must be absolute",
                    DDSErrorCode.PATH_NOT_ABSOLUTE,
                )
            # TODO: more checks
            return DDSPath(p)
        if isinstance(p, pathlib.Path):
            if not p.is_absolute():
                raise DDSException(
                    f"Provided path {p} is not absolute. All paths must be absolute",
                    DDSErrorCode.PATH_NOT_ABSOLUTE,
                )
            return DDSPath(p.absolute().as_posix())
        raise NotImplementedError(f"Cannot make a path from object type {type(p)}: {p}")

    @staticmethod
    def split(p: DDSPath) -> Tuple[str, Optional[DDSPath]]:
        segments = p.split("/")
        if len(segments) == 1:
            return (segments[0], None)
        if len(segments) == 2 and segments[0] == "":
            return (segments[1], None)
        return (segments[1], DDSPathUtils.create("/" + "/".join(segments[2:])))


class _PrintNode(object):
    def __init__(
        self, value: Optional[Any] = None, children: "Optional[List[_PrintNode]]" = None
    ):
        if children is None:
            children = []
        self.value, self.children = value, children


class FunctionInteractionsUtils(object):
    @classmethod
    def non_terminal_leaves(
        cls, paths: List[DDSPath], current_prefix: Optional[DDSPath]
    ) -> List[DDSPath]:
        """
        Returns a list of paths that are terminal but also with leaves (for example: [/f, /f/g] -> [/f]).
        """
        # _logger.debug("non_terminal in: %s %s", paths, current_prefix)
        empty_path = DDSPath("/")
        res: List[DDSPath] = []
        non_empty_paths = [p for p in paths if p != empty_path]

        # There are both empty paths and non-empty paths. it should be one or the other.
        if len(paths) > len(non_empty_paths) > 0 and current_prefix is not None:
            res.append(current_prefix)

        # groupby only groups consecutive elements: the paths must be sorted by their first segment
        splits = sorted(
            [DDSPathUtils.split(p) for p in non_empty_paths], key=lambda x: x[0]
        )
        # _logger.debug("non_terminal splits: %s", splits)
        groups = itertools.groupby(splits, lambda x: x[0])
        for (key, l) in groups:
            sub: List[DDSPath] = [(p if p is not None else empty_path) for (_, p) in l]
            # _logger.debug("non_terminal: %s %s", key, sub)
            sub_path: DDSPath = (
                DDSPath("/" + key)
                if current_prefix is None
                else DDSPath(current_prefix + "/" + key)
            )
            res += FunctionInteractionsUtils.non_terminal_leaves(sub, sub_path)

        return res

    @classmethod
    def all_store_paths(
        cls, fi: FunctionInteractions
    ) -> "OrderedDict[DDSPath, PyHash]":
        res: List[Tuple[DDSPath, PyHash]] = []
        if fi.store_path is not None:
            res.append((fi.store_path, fi.fun_return_sig))
        for fi0 in fi.parsed_body:
            if isinstance(fi0, FunctionInteractions):
                res += cls.all_store_paths(fi0).items()
        return OrderedDict(res)

    @classmethod
    def all_indirect_deps(cls, fis: FunctionInteractions) -> Set[DDSPath]:
        res = set(fis.indirect_deps)
        for fis_ in fis.parsed_body:
            res.update(cls.all_indirect_deps(fis_))
        return res

    @classmethod
    def pprint_tree(
        cls,
        fi: FunctionInteractions,
        present_blobs: Optional[Set[PyHash]],
        printer: Callable[[str], None],
        only_new_nodes: bool = True,
    ) -> None:
        def pprint_tree_(
            node: _PrintNode, _prefix: str = "", _last: bool = True
        ) -> None:
            s = _prefix + ("`- " if _last else "|- ") + str(node.value)
            printer(s)
            _prefix += "   " if _last else "|  "
            child_count = len(node.children)
            for i, child in enumerate(node.children):
                _last = i == (child_count - 1)
                pprint_tree_(child, _prefix, _last)

        printed_nodes: Set[PyHash] = set()

        def to_nodes(fi_: FunctionInteractions) -> _PrintNode:
            if present_blobs is not None:
                if fi_.fun_return_sig in present_blobs:
                    status = "<-- "
                else:
                    status = "<-* "
            else:
                status = "--- "
            sig = str(fi_.fun_return_sig)[:10]
            path = (
                f"@ {sig}"
                if fi_.store_path is None
                else f"{fi_.store_path} {status}{sig}"
            )
            # TODO: add full path
            name = f"Fun {fi_.fun_path} {path}"
            call_ctx = str(fi_.arg_input.inner_call_key)[:10]
            # Already printed -> just put the first line
            if only_new_nodes and fi_.fun_return_sig in printed_nodes:
                return _PrintNode(value="~~" + name, children=[])
            nodes = (
                ([_PrintNode(value=f"Ctx {call_ctx}")] if call_ctx is not None else [])
                + [
                    _PrintNode(value=f"Arg {arg_name}: {str(arg_key)[:10]}")
                    for (arg_name, arg_key) in fi_.arg_input.named_args.items()
                ]
                + [
                    _PrintNode(
                        value=f"Dep {ed.local_path} -> {ed.path}: {str(ed.sig)[:10]}"
                    )
                    for ed in fi_.external_deps
                    if ed.sig is not None
                ]
                + [
                    _PrintNode(value=f"Ext {ed.local_path} -> {ed.path}")
                    for ed in fi_.external_deps
                    if ed.sig is None
                ]
                + [_PrintNode(value=f"Ind {ed}") for ed in fi_.indirect_deps]
                + [
                    to_nodes(fi0)
                    for fi0 in fi_.parsed_body
                    if isinstance(fi0, FunctionInteractions)
                ]
            )
            printed_nodes.add(fi_.fun_return_sig)

            return _PrintNode(value=name, children=nodes)

        pprint_tree_(to_nodes(fi))


class LocalDepPathUtils(object):
    @staticmethod
    def tail(p: LocalDepPath) -> LocalDepPath:
        ps = p.parts[1:]
        return LocalDepPath(pathlib.PurePosixPath("/".join(ps)))

    @staticmethod
    def empty(p: LocalDepPath) -> bool:
        ps = p.parts
        if not ps or (len(ps) == 1 and ps[0] == "."):
            return True
        return False


class FunctionIndirectInteractionUtils(object):
    @staticmethod
    def all_loads(fis: FunctionIndirectInteractions) -> Set[DDSPath]:

        res: Set[DDSPath] = set()
        visited: Set[int] = set()

        def rec(fis0: FunctionIndirectInteractions) -> None:
            # The FIS may form a DAG
            if id(fis0) in visited:
                return
            visited.add(id(fis0))
            res.update((DDSPath(p) for p in fis0.indirect_deps if isinstance(p, str)))
            for fis1 in fis0.indirect_deps:
                if isinstance(fis1, FunctionIndirectInteractions):
                    rec(fis1)

        rec(fis)
        return res

    @staticmethod
    def all_stores(fis: FunctionIndirectInteractions) -> Set[DDSPath]:
        res: Set[DDSPath] = set()
        visited: Set[int] = set()

        def rec(fis0: FunctionIndirectInteractions) -> None:
            # The FIS may form a DAG
            if id(fis0) in visited:
                return
            visited.add(id(fis0))
            if fis0.store_path is not None:
                res.add(fis0.store_path)
            for fis1 in fis0.indirect_deps:
                if isinstance(fis1, FunctionIndirectInteractions):
                    rec(fis1)

        rec(fis)
        return res


class SupportedTypeUtils(object):
    @staticmethod
    def from_type(t: type) -> SupportedType:
        if t is None:
            return SupportedTypeUtils.from_type(type(None))
        module = t.__module__
        if module is None or module == str.__class__.__module__:
            return SupportedType(t.__name__)
        return SupportedType(module + "." + t.__name__)


class CanonicalPathUtils(object):
    @staticmethod
    def from_list(segments: List[str]) -> CanonicalPath:
        return CanonicalPath(PurePosixPath("/".join(segments)))

    @staticmethod
    def head(p: CanonicalPath) -> str:
        return p._path.parts[0]

    @staticmethod
    def last(p: CanonicalPath) -> str:
        return p._path.parts[-1]

    @staticmethod
    def tail(p: CanonicalPath) -> CanonicalPath:
        return CanonicalPathUtils.from_list(list(p._path.parts[1:]))

    @staticmethod
    def append(p: CanonicalPath, o: Union[str, LocalDepPath]) -> CanonicalPath:
        if isinstance(o, str):
            return CanonicalPath(p._path.joinpath(o))
        elif isinstance(o, PurePosixPath):  # LocalDepPath
            s = str(o)
            if s.startswith("/"):
                s = s[1:]
            return CanonicalPath(p._path.joinpath(s))
        else:
            raise DDSException(f"Only str or PurePosixPath expected, got {type(o)} {o}")
