import logging
from typing import Optional, Dict, List, Union

from .structures import (
    DDSException,
    CodecProtocol,
    ProtocolRef,
    SupportedType,
    FileCodecProtocol,
    DDSErrorCode,
)
from .structures_utils import SupportedTypeUtils

_logger = logging.getLogger(__name__)


class CodecRegistry(object):
    """
    Invariants:
    - the codecs have precedence over the file codecs (they are more specialized)
    """

    def __init__(
        self, codecs: List[CodecProtocol], file_codecs: List[FileCodecProtocol]
    ):
        self.codecs = list(codecs)
        self.file_codecs = list(file_codecs)
        self._handled_types: Dict[
            SupportedType, Union[CodecProtocol, FileCodecProtocol]
        ] = {}
        self._protocols: Dict[ProtocolRef, Union[CodecProtocol, FileCodecProtocol]] = {}
        for c in list(codecs):
            self.add_codec(c)
        for fc in list(self.file_codecs):
            self.add_file_codec(fc)

    def add_codec(self, codec: CodecProtocol) -> None:
        """added codecs come on top"""
        self.codecs.insert(0, codec)
        for t in codec.handled_types():
            self._handled_types[t] = codec
        self._protocols[codec.ref()] = codec

    def add_file_codec(self, codec: FileCodecProtocol) -> None:
        """added codecs come on top"""
        self.file_codecs.insert(0, codec)
        for t in codec.handled_types():
            if t not in self._handled_types:
                self._handled_types[t] = codec
        if codec.ref() in self._protocols:
            _logger.warning(f"{codec.ref()} already in protocols, skipping {codec}")
        else:
            self._protocols[codec.ref()] = codec

    # TODO: add the location too.
    def get_codec(
        self, obj_type: Union[SupportedType, None], ref: Optional[ProtocolRef]
    ) -> Union[CodecProtocol, FileCodecProtocol]:
        # First the reference
        if ref:
            if ref not in self._protocols:
                raise DDSException(
                    f"Requested protocol {ref}, which is not registered",
                    DDSErrorCode.PROTOCOL_NOT_FOUND,
                )
            return self._protocols[ref]
        # Then the object type
        if obj_type is not None:
            # Try to use object as backup
            pref: SupportedType = obj_type
            cp = self._handled_types.get(pref) or self._handled_types.get(
                SupportedTypeUtils.from_type(object)
            )
            if cp is None:
                raise DDSException(
                    f"Requested protocol for type {obj_type}, which is not registered"
                )
            return cp
        raise DDSException(f"No protocol found", DDSErrorCode.PROTOCOL_NOT_FOUND)


def _build_default_registry() -> CodecRegistry:
    from .codecs.pandas import PandasFileCodec
    from .codecs.builtins import (
        StringLocalFileCodec,
        PickleLocalFileCodec,
        BytesFileCodec,
    )

    pfc = PandasFileCodec()

    cr = CodecRegistry(
        [],
        [
            StringLocalFileCodec(),
            BytesFileCodec(),
            PickleLocalFileCodec(),
            pfc,
        ],
    )
    # Hack for the older versions who might have registerd the old pandas codec.
    cr._protocols[ProtocolRef("default.pandas_local")] = pfc
    return cr


_registry: Optional[CodecRegistry] = None


def codec_registry() -> CodecRegistry:
    global _registry
    if _registry is None:
        _registry = _build_default_registry()
    return _registry
