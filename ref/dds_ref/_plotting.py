"""
Plotting of the dependencies.

https://github.com/BVLC/caffe/blob/master/python/caffe/draw.py
"""
import pathlib
from collections import OrderedDict
from typing import NamedTuple, Optional, List, Tuple, Set, NewType, Dict

import pydotplus as pydot  # type: ignore

from dds_ref.structures import FunctionInteractions, DDSPath, PyHash

EdgeType = NewType("EdgeType", int)
DirectEdge = EdgeType(1)
ImplicitEdge = EdgeType(2)
IndirectEdge = EdgeType(3)

_edge_styles: Dict[EdgeType, Dict[str, str]] = {
    DirectEdge: {"style": "solid"},
    IndirectEdge: {"style": "dashed"},
    ImplicitEdge: {"style": "dotted"},
}

NORMAL_NODE_STYLE = {"shape": "box"}

BLOB_NODE_STYLE = {"shape": "box", "fillcolor": "#E0E0E0", "style": "filled"}

EVAL_NODE_STYLE = {"shape": "box", "fillcolor": "#90EE90", "style": "filled"}


def build_graph(
    fis: FunctionInteractions,
    present_blobs: Optional[Set[PyHash]],
    indirect_refs: Dict[DDSPath, PyHash],
) -> pydot.Dot:
    s = _structure(fis, indirect_refs)
    g = pydot.Dot("interactions", graph_type="digraph", rankdir="BT")
    indirect_hashes = set(indirect_refs.values())
    for n in s.fnodes:
        style = NORMAL_NODE_STYLE
        if n.node_hash in indirect_hashes:
            style = BLOB_NODE_STYLE
        if present_blobs:
            style = BLOB_NODE_STYLE if n.node_hash in present_blobs else EVAL_NODE_STYLE
        g.add_node(pydot.Node(name=str(n.path), **style))
    for e in s.deps:
        style = _edge_styles[e.edge_type]
        g.add_edge(pydot.Edge(src=str(e.from_path), dst=str(e.to_path), **style))
    return g


def draw_graph(
    fis: FunctionInteractions,
    out: pathlib.Path,
    present_blobs: Optional[Set[PyHash]],
    indirect_refs: Dict[DDSPath, PyHash],
) -> None:
    out.write_bytes(
        build_graph(fis, present_blobs, indirect_refs).create(format=out.suffix[1:])
    )


class Node(NamedTuple):
    path: DDSPath
    node_hash: PyHash


class Edge(NamedTuple):
    from_path: DDSPath
    to_path: DDSPath
    edge_type: EdgeType


class Graph(NamedTuple):
    fnodes: List[Node]
    deps: List[Edge]


def _structure(
    fis: FunctionInteractions, indirect_refs: Dict[DDSPath, PyHash]
) -> Graph:
    # All the structures are keyed by the path of the nodes: the same function may be kept under
    # several paths (same signature, distinct nodes).
    nodes: OrderedDict[DDSPath, Node] = OrderedDict()
    all_refs: Dict[DDSPath, PyHash] = dict(indirect_refs)
    # The head nodes for each function
    head_nodes: OrderedDict[PyHash, List[Node]] = OrderedDict()
    # The set of all known dependencies to a node
    node_deps: OrderedDict[DDSPath, Set[DDSPath]] = OrderedDict()
    deps: OrderedDict[Tuple[DDSPath, DDSPath], Edge] = OrderedDict()

    # Returns the list of head nodes:
    # All the nodes that can be evaluated independently inside a function.
    def traverse(fis_: FunctionInteractions) -> List[Node]:
        sig = fis_.fun_return_sig
        if sig in head_nodes:
            return head_nodes[sig]
        # Recurse
        sub_calls: List[Tuple[List[Node], FunctionInteractions]] = [
            (traverse(sub_fis), sub_fis) for sub_fis in fis_.parsed_body
        ]
        sub_nodes: List[Node] = sorted(
            list(
                dict(
                    [(n.path, n) for (l_nodes, _) in sub_calls for n in l_nodes]
                ).values()
            ),
            key=lambda n: (n.node_hash, n.path),
        )
        # Add implicit dependencies between context-dependent nodes.
        # Current algorithm is not very smart: anything that has parameters is assumed to be context-dependent
        # (even if the parameters are known at introspection time)
        start_nodes: List[Node] = sub_calls[0][0] if sub_calls else []
        sub_set: Set[DDSPath] = set([k for n in sub_nodes for k in node_deps[n.path]])
        for (l1, fi) in sub_calls[1:]:
            # l1: List[Node]
            # fi: FunctionInteractions
            # If it is a context-independent function, add it to the list of potential implicit dependencies
            if len(fi.arg_input.named_args) == 0:
                start_nodes += l1
            # Otherwise, there is an implicit dep: introduce a single dep here
            else:
                for n1 in start_nodes:
                    for n2 in l1:
                        k1 = n1.path
                        k2 = n2.path
                        if k1 not in node_deps:
                            node_deps[k1] = set()
                        if k2 not in node_deps:
                            node_deps[k2] = set()
                        k = (k1, k2)
                        if (
                            k1 != k2
                            and k not in deps
                            and k2 not in node_deps[k1]
                            and k1 not in node_deps[k2]
                            and k1 not in sub_set
                            and k2 not in sub_set
                        ):
                            deps[k] = Edge(n1.path, n2.path, ImplicitEdge)
                            node_deps[k2].add(k1)
                            node_deps[k2].update(node_deps[k1])
                # Restart the list of deps just based on the last implicit node
                # It is an approximation of the actual computation flow, but enough for UI purposes
                start_nodes = l1
        if fis_.store_path is None:
            return sub_nodes
        else:
            # We are returning a path -> create a node
            res_node = Node(fis_.store_path, sig)
            nodes[res_node.path] = res_node
            all_refs[fis_.store_path] = sig
            sub_set.update([n.path for n in sub_nodes])
            node_deps[res_node.path] = sub_set
            for sub_n in sub_nodes:
                k = (sub_n.path, res_node.path)
                if k not in deps or deps[k].edge_type != DirectEdge:
                    deps[k] = Edge(sub_n.path, res_node.path, DirectEdge)
                node_deps[res_node.path].update(node_deps[sub_n.path])
            # Add the indirect references
            for p in fis_.indirect_deps:
                assert p in all_refs, p
                if p not in nodes:
                    nodes[p] = Node(p, all_refs[p])
                k = (p, res_node.path)
                if k not in deps:
                    deps[k] = Edge(p, res_node.path, IndirectEdge)
            return [res_node]

    traverse(fis)
    return Graph(list(nodes.values()), list(deps.values()))
