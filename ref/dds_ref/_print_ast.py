# Copied from:
# https://raw.githubusercontent.com/asottile/astpretty/master/astpretty.py

import ast
import contextlib
from typing import Any
from typing import Generator
from typing import Tuple
from typing import Type
from typing import Union

# if TYPE_CHECKING:
#     from typed_ast import ast27
#     from typed_ast import ast3
#     ASTType = Union[ast.AST, ast27.AST, ast3.AST]

AST: Tuple[Type[Any], ...] = (ast.AST,)
ASTType = ast.AST
expr_context: Tuple[Type[Any], ...] = (ast.expr_context,)
# try:  # pragma: no cover (with typed-ast)
#     from typed_ast import ast27
#     from typed_ast import ast3
# except ImportError:  # pragma: no cover (without typed-ast)
#     typed_support = False
# else:  # pragma: no cover (with typed-ast)
#     AST += (ast27.AST, ast3.AST)
#     expr_context += (ast27.expr_context, ast3.expr_context)
#     typed_support = True


def _is_sub_node(node: Any) -> bool:
    return isinstance(node, AST) and not isinstance(node, expr_context)


def _is_leaf(node: "ASTType") -> bool:
    for field in node._fields:
        attr = getattr(node, field)
        if _is_sub_node(attr):
            return False
        elif isinstance(attr, (list, tuple)):
            for val in attr:
                if _is_sub_node(val):
                    return False
    else:
        return True


def _fields(n: "ASTType", show_offsets: bool = True) -> Tuple[str, ...]:
    if show_offsets:
        return n._attributes + n._fields
    else:
        return n._fields


def _leaf(node: "ASTType", show_offsets: bool = True) -> str:
    if isinstance(node, AST):
        return "{}({})".format(
            type(node).__name__,
            ", ".join(
                "{}={}".format(
                    field,
                    _leaf(getattr(node, field), show_offsets=show_offsets),
                )
                for field in _fields(node, show_offsets=show_offsets)
            ),
        )
    elif isinstance(node, list):
        return "[{}]".format(
            ", ".join(_leaf(x, show_offsets=show_offsets) for x in node),
        )
    else:
        return repr(node)


def pformat(
    node: Union["ASTType", None, str],
    indent: str = "    ",
    show_offsets: bool = True,
    _indent: int = 0,
) -> str:
    if node is None:
        return repr(node)
    elif isinstance(node, str):  # pragma: no cover (ast27 typed-ast args)
        return repr(node)
    elif _is_leaf(node):
        return _leaf(node, show_offsets=show_offsets)
    else:

        class state:
            indent = _indent

        @contextlib.contextmanager
        def indented() -> Generator[None, None, None]:
            state.indent += 1
            yield
            state.indent -= 1

        def indentstr() -> str:
            return state.indent * indent

        def _pformat(el: Union["ASTType", None, str], _indent: int = 0) -> str:
            return pformat(
                el,
                indent=indent,
                show_offsets=show_offsets,
                _indent=_indent,
            )

        out = type(node).__name__ + "(\n"
        with indented():
            for field in _fields(node, show_offsets=show_offsets):
                attr = getattr(node, field)
                if attr == []:
                    representation = "[]"
                elif (
                    isinstance(attr, list)
                    and len(attr) == 1
                    and isinstance(attr[0], AST)
                    and _is_leaf(attr[0])
                ):
                    representation = f"[{_pformat(attr[0])}]"
                elif isinstance(attr, list):
                    representation = "[\n"
                    with indented():
                        for el in attr:
                            representation += "{}{},\n".format(
                                indentstr(),
                                _pformat(el, state.indent),
                            )
                    representation += indentstr() + "]"
                elif isinstance(attr, AST):
                    representation = _pformat(attr, state.indent)
                else:
                    representation = repr(attr)
                out += f"{indentstr()}{field}={representation},\n"
        out += indentstr() + ")"
        return out
