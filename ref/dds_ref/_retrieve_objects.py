"""
This file is concerned with the extraction of objects given a path.
"""
import importlib
import inspect
import logging
import pathlib
import typing
from collections import OrderedDict
from pathlib import PurePosixPath
from types import ModuleType, FunctionType
from typing import (
    Any,
    Union,
    Optional,
    Type,
)

from ._eval_ctx import (
    EvalMainContext,
    ObjectRetrievalType,
    ExternalObject,
    AuthorizedObject,
)
from .structures import DDSException, CanonicalPath, LocalDepPath, DDSErrorCode
from .structures_utils import LocalDepPathUtils, CanonicalPathUtils
from ._config import get_option, accept_list_option, accept_dict_option

_logger = logging.getLogger(__name__)


def _mod_path(m: ModuleType) -> CanonicalPath:
    return CanonicalPathUtils.from_list(m.__name__.split("."))


def function_path(f: Union[type, FunctionType]) -> CanonicalPath:
    mod = inspect.getmodule(f)
    if mod is None:
        raise DDSException(
            f"Function {f} has no module. DDS is expecting that the function"
            f" {f} be associated with a module. However, the interpreter could "
            f"not find a module associated to this function. This can happen "
            f"when the function is defined at runtime. Suggestion: define "
            f"this function in a Python module.",
            DDSErrorCode.FUNCTION_NO_MODULE,
        )
    return CanonicalPath(_mod_path(mod)._path.joinpath(f.__name__))


def _is_authorized_type(tpe: Type[Any], gctx: EvalMainContext) -> bool:
    """
    True if the type is defined within the whitelisted hierarchy

    Note: the hierarchy is currently only concerned with modules, not with any sub-object.
    """
    if tpe is None:
        return True
    if tpe in (int, float, str, bytes, bool, PurePosixPath, FunctionType, ModuleType):
        return True
    # Some specific structural types are more complex and can be user-controlled.
    # Tuples are hashed like lists.
    if get_option(accept_list_option) and tpe in (list, tuple):
        return True
    if get_option(accept_dict_option) and tpe in (dict, OrderedDict):
        return True
    if issubclass(tpe, object):
        mod = inspect.getmodule(tpe)
        if mod is None:
            # _logger.debug(f"_is_authorized_type: type %s has no module", tpe)
            return False
        mod_path = _mod_path(mod)
        if gctx.is_authorized_path(mod_path):
            msg = (
                f"Type {tpe} ({mod_path}) is authorized. This is currently not implemented."
                f" Suggestion: use a built-in type instead."
            )
            _logger.warning(msg)
            raise DDSException(msg, DDSErrorCode.AUTHORIZED_TYPE_NOT_UNDERSTOOD)
        return False
    else:
        msg = f"Type {tpe} is not implemented"
        _logger.warning(msg)
        raise DDSException(msg, DDSErrorCode.AUTHORIZED_TYPE_NOT_UNDERSTOOD)


class ObjectRetrieval(object):
    @classmethod
    def retrieve_object(
        cls,
        local_path: LocalDepPath,
        context_mod: ModuleType,
        gctx: EvalMainContext,
        debug: bool = False,
    ) -> ObjectRetrievalType:
        """Retrieves the object and also provides the canonical path of the object"""
        assert len(local_path.parts), local_path
        mod_path = _mod_path(context_mod)
        obj_key = (local_path, mod_path)

        if obj_key in gctx.cached_objects:
            if debug:
                _logger.debug(f"retrieve_object: found in cache: obj_key: {obj_key}")
            return gctx.cached_objects[obj_key]
        if debug:
            _logger.debug(f"retrieve_object: not found in cache: obj_key: {obj_key}")

        fname = local_path.parts[0]
        sub_path = LocalDepPathUtils.tail(local_path)
        if fname not in context_mod.__dict__:
            # In some cases (old versions of jupyter) the module is not listed
            # -> try to load it from the root
            # _logger.debug(
            #     f"Could not find {fname} in {context_mod}, attempting a direct load"
            # )
            # TODO: is this worth supporting?
            loaded_mod: Optional[ModuleType]
            try:
                loaded_mod = importlib.import_module(fname)
            except ModuleNotFoundError:
                loaded_mod = None
            if loaded_mod is None:
                # Looking into the globals (only if the scope is currently __main__ or __global__)
                mod_path = _mod_path(context_mod)
                if CanonicalPathUtils.head(mod_path) not in ("__main__", "__global__"):
                    if debug:
                        _logger.debug(
                            f"Could not load name %s and not in global context (%s), skipping ",
                            fname,
                            mod_path,
                        )
                    return None
                else:
                    pass
                if debug:
                    _logger.debug(
                        f"Could not load name {fname}, looking into the globals"
                    )
                if fname in gctx.start_globals:
                    # _logger.debug(f"Found {fname} in start_globals")
                    obj = gctx.start_globals[fname]
                    if isinstance(obj, ModuleType) and not LocalDepPathUtils.empty(
                        sub_path
                    ):
                        # Referring to function from an imported module.
                        # Redirect the search to the module
                        # _logger.debug(
                        #     f"{fname} is module {obj}, checking for {sub_path}"
                        # )
                        res = cls.retrieve_object(sub_path, obj, gctx)
                        gctx.cached_objects[obj_key] = res
                        return res
                    if isinstance(obj, ModuleType):
                        # Fully resolve the name of the module:
                        obj_path = _mod_path(obj)
                    elif isinstance(obj, FunctionType):
                        obj_path = function_path(obj)
                    else:
                        obj_path = CanonicalPathUtils.from_list(
                            ["__global__"] + [str(x) for x in local_path.parts]
                        )
                    if not gctx.is_authorized_path(obj_path):
                        if debug:
                            _logger.debug(
                                f"Object[start_globals] {fname} of type {type(obj)} is not authorized (path),"
                                f" dropping path {obj_path}"
                            )
                        res = ExternalObject(obj_path)
                        gctx.cached_objects[obj_key] = res
                        return res

                    # TODO: why do we need another function check?
                    # TODO: why strings / paths here?
                    if _is_authorized_type(type(obj), gctx) or isinstance(
                        obj,
                        (
                            FunctionType,
                            ModuleType,
                            pathlib.PosixPath,
                            pathlib.PurePosixPath,
                            str,
                        ),
                    ):
                        if debug:
                            _logger.debug(
                                f"Object[start_globals] {fname} ({type(obj)}) of path {obj_path} is authorized,"
                            )
                        res = AuthorizedObject(obj, obj_path)
                        gctx.cached_objects[obj_key] = res
                        return res
                    else:
                        if debug:
                            _logger.debug(
                                f"Object[start_globals] {fname} of type {type(obj)} is noft authorized (type), dropping path {obj_path}"
                            )
                        res = ExternalObject(obj_path)
                        gctx.cached_objects[obj_key] = res
                        return res
                else:
                    if debug:
                        _logger.debug(f"{fname} not found in start_globals")
                    gctx.cached_objects[obj_key] = None
                    return None
            res = cls._retrieve_object_rec(sub_path, loaded_mod, gctx)
            gctx.cached_objects[obj_key] = res
            return res
        else:
            res = cls._retrieve_object_rec(local_path, context_mod, gctx)
            if debug:
                _logger.debug(
                    f"retrieve_object: _retrieve_object_rec: local_path:{local_path} context_mod:{context_mod} res:{res}"
                )
            gctx.cached_objects[obj_key] = res
            return res

    @classmethod
    def retrieve_object_global(
        cls, path: CanonicalPath, gctx: EvalMainContext
    ) -> Optional[Any]:
        """
        Retrieves an object given its global path.
        """
        # The head is always assumed to be a module for now
        mod_name = CanonicalPathUtils.head(path)
        obj_key = (LocalDepPath(PurePosixPath("")), path)
        if obj_key in gctx.cached_objects:
            return gctx.cached_objects[obj_key]

        mod = importlib.import_module(mod_name)
        if mod is None:
            raise DDSException(
                f"Cannot process path {path}: module {mod_name} cannot be loaded. "
                f"DDS is attempting to load an object in the path {path} and is expecting"
                f"to find it in the module {mod_name}. However, "
                f"Python is indicating that {mod_name} is not a module that can be loaded. "
                f"Suggestions: ensure that {mod_name} is a Python module.",
                DDSErrorCode.MODULE_NOT_FOUND,
            )
        sub_path = CanonicalPathUtils.tail(path)
        dep_path = LocalDepPath(sub_path._path)
        # _logger.debug(f"Calling retrieve_object on {dep_path}, {mod}")
        z = cls.retrieve_object(dep_path, mod, gctx)
        if z is None or isinstance(z, ExternalObject):
            raise DDSException(
                f"Cannot load path {path}: this object cannot be retrieved, however "
                f"the module '{mod_name}' exists. The typical cause of the issue is "
                f"that the module {mod_name} has not been whitelisted for use by DDS. Use the "
                f"function 'dds.accept_module' to whitelist {mod_name} or one of its "
                f"submodules."
                f" dep_path: {dep_path} module: {mod}",
                DDSErrorCode.MODULE_NOT_FOUND,
            )
        elif isinstance(z, AuthorizedObject):
            obj = z.object_val
            gctx.cached_objects[obj_key] = AuthorizedObject(obj, path)
            return obj
        else:
            assert False

    @classmethod
    def _retrieve_object_rec(
        cls,
        local_path: LocalDepPath,
        context_mod: ModuleType,
        gctx: EvalMainContext,
        debug: bool = False,
    ) -> ObjectRetrievalType:
        if debug:
            _logger.debug(f"_retrieve_object_rec: {local_path} {context_mod}")
        if not local_path.parts:
            # The final position. It is the given module, if authorized.
            obj_mod_path = _mod_path(context_mod)
            if not gctx.is_authorized_path(obj_mod_path):
                if debug:
                    _logger.debug(
                        f"_retrieve_object_rec: Actual module {obj_mod_path} for obj {context_mod} is not authorized"
                    )
                return ExternalObject(
                    CanonicalPathUtils.append(obj_mod_path, local_path)
                )
            else:
                # _logger.debug(
                #     f"_retrieve_object_rec: Actual module {obj_mod_path} for obj {context_mod}: authorized"
                # )
                pass
            return AuthorizedObject(context_mod, obj_mod_path)
        # At least one more path to explore
        fname = local_path.parts[0]
        tail_path = LocalDepPathUtils.tail(local_path)
        if fname not in context_mod.__dict__:
            mod_keys = sorted(context_mod.__dict__.keys())
            # It should be in the context module, this was assumed to be taken care of
            raise DDSException(
                f"_retrieve_object_rec: Object {fname} not found in module {context_mod}."
                f"DDS attempted to load object with path {local_path} inside the module "
                f"{context_mod}. However, no object called {fname} is present in that module. "
                f"The other keys of that module are: {mod_keys}.",
                DDSErrorCode.OBJECT_PATH_NOT_FOUND,
            )
        obj = context_mod.__dict__[fname]
        if debug:
            _logger.debug(
                f"_retrieve_object_rec: {local_path} {context_mod} {type(obj)} {obj}"
            )

        if LocalDepPathUtils.empty(tail_path):
            # Final path.
            # If it is a module, continue recursion
            if isinstance(obj, ModuleType):
                return cls._retrieve_object_rec(tail_path, obj, gctx)
            # Special treatment for objects that may be defined in other modules but are redirected in this one.
            if isinstance(obj, (FunctionType, type)):
                mod_obj = inspect.getmodule(obj)
                if mod_obj is None:
                    # _logger.debug(
                    #     f"_retrieve_object_rec: cannot infer definition module: path: {local_path} mod: {context_mod} "
                    # )
                    return None
                if mod_obj in [typing]:
                    # The redirection module is a python system module like the typing module.
                    # Do not attempt to introspect further, this goes into python implementation details and is not
                    # authorized.
                    # Note: it skips the definition of the newtype along the way, but this is considered a corner case.
                    return None
                if mod_obj is not context_mod:
                    # Reimporting from another module.
                    # Get the true name of the function.
                    # The function may have been renamed in the code and this name is not the one from
                    # the original module -> check the original name of the function:
                    local_path_mod = LocalDepPath(PurePosixPath(obj.__name__)).joinpath(
                        LocalDepPathUtils.tail(local_path)
                    )
                    if debug:
                        _logger.debug(
                            f"_retrieve_object_rec: {context_mod} is not definition module, redirecting to {local_path_mod} ; {mod_obj}"
                        )
                    return cls._retrieve_object_rec(local_path_mod, mod_obj, gctx)
            obj_mod_path = _mod_path(context_mod)
            obj_path = CanonicalPathUtils.append(obj_mod_path, fname)
            if gctx.is_authorized_path(obj_path):
                # TODO: simplify the authorized types
                if (
                    _is_authorized_type(type(obj), gctx)
                    or isinstance(
                        obj,
                        (
                            FunctionType,
                            ModuleType,
                            pathlib.PosixPath,
                            pathlib.PurePosixPath,
                        ),
                    )
                    or inspect.isclass(obj)
                ):
                    if debug:
                        _logger.debug(
                            f"_retrieve_object_rec: Object {fname} ({type(obj)}) of path {obj_path} is authorized,"
                        )
                    return AuthorizedObject(obj, obj_path)
                else:
                    if debug:
                        _logger.debug(
                            f"_retrieve_object_rec: Object {fname} of type {type(obj)} is not authorized (type), dropping path {obj_path}"
                        )
                    return ExternalObject(obj_path)
            else:
                if debug:
                    _logger.debug(
                        f"_retrieve_object_rec: Object {fname} of type {type(obj)} and path {obj_path} is not authorized (path)"
                    )
                return ExternalObject(obj_path)

        if debug:
            _logger.debug(
                f"_retrieve_object_rec: non-terminal fname={fname} obj: {type(obj)} tail_path: {tail_path} {isinstance(obj, FunctionType)} {isinstance(obj, ModuleType)} {isinstance(obj, type)}"
            )
        # More to explore
        # If it is a module, continue recursion
        if isinstance(obj, ModuleType):
            return cls._retrieve_object_rec(tail_path, obj, gctx)

        # Some objects like types are also callables

        # We still have a path but we have reached a callable.
        # In this case, determine if the function is allowed. If this is the case, stop here.
        # (the rest of the path is method calls)
        if isinstance(obj, FunctionType):
            obj_mod_path = _mod_path(context_mod)
            obj_path = CanonicalPathUtils.append(obj_mod_path, fname)
            if gctx.is_authorized_path(obj_path):
                return AuthorizedObject(obj, obj_path)
            else:
                return ExternalObject(obj_path)

        # We still have a path but we have reached a class.
        # In this case, determine if the class is allowed. If this is the case, stop here.
        # (the rest of the path is method calls)
        if isinstance(obj, type):
            obj_mod_path = function_path(obj)
            # obj_mod_path = _mod_path(context_mod)
            obj_path = CanonicalPathUtils.append(obj_mod_path, fname)
            # _logger.debug(f"_retrieve_object_rec:(type) whitelisted_packages: {obj_path}->{gctx.is_authorized_path(obj_path)} {gctx.whitelisted_packages}")
            if gctx.is_authorized_path(obj_path):
                return AuthorizedObject(obj, obj_path)
            else:
                return ExternalObject(obj_path)

        # The rest is not authorized for now.
        # msg = f"Failed to consider object type {type(obj)} at path {local_path} context_mod: {context_mod}"
        # _logger.debug(msg)
        return None
