import functools
import pathlib
import warnings
from typing import Any, Callable, TypeVar, cast, Union

from ._api import keep as _keep
from .structures import DDSPath, DDSErrorCode, DDSException

F = TypeVar("F", bound=Callable[..., Any])


def dds_function(path: Union[str, DDSPath, pathlib.Path]) -> Callable[[F], F]:
    """
    Annotation-style for `dds.keep`.

    DEPRECATED. Use data_function instead. 'data_function' provides the
    same functionality but has a more understandable name.
    """
    warnings.warn(
        "The name 'dds_function' is deprecated. Use 'data_function' instead. ",
        DeprecationWarning,
    )

    def decorator_(func: F) -> F:
        @functools.wraps(func)
        def wrapper(*args, **kwargs):
            return _keep(path, func, *args, **kwargs)

        return cast(F, wrapper)

    return decorator_


def data_function(path: Union[str, DDSPath, pathlib.Path]) -> Callable[[F], F]:
    """
    Annotation-style for `dds.keep`.

    This is useful for functions with no arguments that should be cached as DDS functions.

    The following definitions are equivalent:

    ```py
    dds.data_function("/function")
    def function(): return 1
    ```

    ```py
    def _function(): return 1

    def function():
        return dds.keep("/function", _function)
    ```
    """

    def decorator_(func: F) -> F:
        @functools.wraps(func)
        def wrapper(*args, **kwargs):
            if len(args) > 0 or len(kwargs) > 0:
                raise DDSException(
                    f"@data_function cannot be used with arguments. "
                    f"Arguments were passed to the function {func}, but this function "
                    f"also has a dds.data_function annotation, which is not allowed (see "
                    f"user guide of DDS). "
                    f"Suggestion: write a wrapper function that does not take arguments itself, "
                    f"or use dds.keep to pass arguments",
                    DDSErrorCode.ARG_IN_DATA_FUNCTION,
                )
            return _keep(path, func, *args, **kwargs)

        return cast(F, wrapper)

    return decorator_
