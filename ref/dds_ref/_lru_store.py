import logging
from collections import OrderedDict
from dataclasses import dataclass
from typing import Any, Optional, List

from .codec import CodecRegistry
from .store import Store
from .structures import (
    PyHash,
    DDSPath,
    ProtocolRef,
)

_logger = logging.getLogger(__name__)

# The default cache is conservatively small to prevent seemingly memory leaks.
# TODO: make it a configuration parameter
default_cache_size = 10


# To ensure that we can store None in the cache
@dataclass(frozen=True)
class Entry:
    obj: Any


class LRUCache(object):
    """
    Very simple LRU cache implementation.

    The reason for not using the default 'lru_cache' implementation of python is that
    the latter does not allow probing into the cache.
    """

    # initialising capacity
    def __init__(self, capacity: int):
        self._cache: OrderedDict[PyHash, Entry] = OrderedDict()
        self._capacity = capacity

    def get(self, key: PyHash) -> Optional[Entry]:
        if key not in self._cache:
            return None
        else:
            self._cache.move_to_end(key)
            return self._cache[key]

    def put(self, key: PyHash, value: Any) -> None:
        self._cache[key] = Entry(value)
        self._cache.move_to_end(key)
        while len(self._cache) > self._capacity:
            self._cache.popitem(last=False)


class LRUCacheStore(Store):
    """
    A store that caches the most recent objects.

    This store keeps objects in memory and reserves them if requested.

    TODO: consider adding also the paths.
    It is not necessarily a good idea. For the local case, the speed of fetching a path
    is very high, and in a distributed store, it introduces coherency issues which are
    much more troublesome in practice. This should be added only for very slow stores
    updated by a single process, which is not a common case.
    """

    def __init__(self, store: Store, num_elem: int):
        self._store: Store = store
        self._num_elem = num_elem
        self._cache = LRUCache(num_elem)

    def has_blob(self, key: PyHash) -> bool:
        # Check the cache first for the key, and then check the store.
        return (self._cache.get(key) is not None) or self._store.has_blob(key)

    def fetch_blob(self, key: PyHash) -> Optional[Any]:
        cache_obj = self._cache.get(key)
        if cache_obj is not None:
            return cache_obj.obj
        # Not in the cache
        _logger.debug(f"Fetching key {key}")
        res = self._store.fetch_blob(key)
        _logger.debug(f"Fetching key {key} completed: {type(res)}")
        # Stores answer None for a key they do not hold: do not cache a miss,
        # otherwise has_blob() would report the key as present from then on.
        if res is not None or self._store.has_blob(key):
            self._cache.put(key, res)
        return res

    def store_blob(self, key: PyHash, blob: Any, codec: Optional[ProtocolRef]) -> None:
        """
        Storing the blob is not cached.

        The operation of storing the blob may trigger side effects which are referentially
        transparent but have a big impact on the performance.
        For example, Spark dataframes are fully materialized and stored as parquet,
         as opposed to just lazy query plans.
        """
        _logger.debug(f"store_blob key {key}")
        self._store.store_blob(key, blob, codec)

    def sync_paths(self, paths: "OrderedDict[DDSPath, PyHash]") -> None:
        _logger.debug(f"sync_paths {paths}")
        self._store.sync_paths(paths)

    def fetch_paths(self, paths: List[DDSPath]) -> "OrderedDict[DDSPath, PyHash]":
        res = self._store.fetch_paths(paths)
        _logger.debug(f"fetch_paths {paths} -> {res}")
        return res

    def codec_registry(self) -> CodecRegistry:
        return self._store.codec_registry()

    def __repr__(self):
        return f"LRUCacheStore(num_elem={self._num_elem} store={self._store})"
