import ast
import inspect
import logging
from collections import OrderedDict
from pathlib import PurePosixPath
from types import ModuleType, FunctionType
from typing import (
    cast,
    Callable,
    Any,
    Set,
    Union,
    List,
    Sequence,
)

from ._eval_ctx import (
    EvalMainContext,
    ExternalObject,
    AuthorizedObject,
    ObjectRetrievalType,
)
from ._lambda_funs import is_lambda, inspect_lambda_condition
from ._print_ast import pformat
from ._retrieve_objects import ObjectRetrieval, function_path
from .fun_args import dds_hash, get_arg_list
from .introspect import (
    InspectFunction,
    ExternalVarsVisitor,
    LocalVar,
    _function_name,
    get_assign_targets,
    python_builtin_names,
    getsource_class,
)
from .structures import (
    FunctionArgContext,
    DDSPath,
    DDSException,
    CanonicalPath,
    LocalDepPath,
    FunctionIndirectInteractions,
    DDSErrorCode,
)
from .structures_utils import CanonicalPathUtils as CPU

_logger = logging.getLogger(__name__)


def introspect_indirect(
    f: Callable[[Any], Any], eval_ctx: EvalMainContext
) -> FunctionIndirectInteractions:
    fun: FunctionType = cast(FunctionType, f)
    return _introspect(fun, eval_ctx, call_stack=[])


def _introspect(
    obj: Union[FunctionType, type],
    gctx: EvalMainContext,
    call_stack: List[CanonicalPath],
) -> FunctionIndirectInteractions:
    if isinstance(obj, FunctionType):
        return _introspect_fun(obj, gctx, call_stack)
    if isinstance(obj, type):
        return _introspect_class(obj, gctx, call_stack)
    raise DDSException(
        f"Expected function or class, got object of type {type(obj)} instead: {obj}"
    )


def _introspect_class(
    c: type, gctx: EvalMainContext, call_stack: List[CanonicalPath], debug: bool = False
) -> FunctionIndirectInteractions:
    # Check if the function has already been evaluated.
    fun_path = function_path(c)

    # TODO: add to the global interactions cache

    fun_module = inspect.getmodule(c)
    if fun_module is None:
        msg = (
            f"Could not find the module for class {c}. "
            f"This usually happens when the class is defined at run time, or when the class"
            f"is moved between modules. Suggestion: rewrite your code to use functions instead,"
            f"or do not accept the module for this class (see dds.accept_module)."
        )
        raise DDSException(msg, DDSErrorCode.MODULE_NOT_FOUND)
    # _logger.debug(f"_introspect: {f}: fun_path={fun_path} fun_module={fun_module}")
    fiis_ = gctx.cached_indirect_interactions.get(fun_path)
    if fiis_ is not None:
        return fiis_
    src = getsource_class(c)
    # _logger.debug(f"Starting _introspect_class: {c}: src={src}")
    ast_src = ast.parse(src)
    ast_f: ast.ClassDef = ast_src.body[0]  # type: ignore
    assert isinstance(ast_f, ast.ClassDef), type(ast_f)
    if debug:
        _logger.debug(f"_introspect ast_src:\n {pformat(ast_f)}")

    # For each of the functions in the body, look for interactions.
    fiis = InspectFunctionIndirect.inspect_class(
        ast_f, gctx, fun_module, fun_path, call_stack
    )
    # Cache the function interactions
    gctx.cached_indirect_interactions[fun_path] = fiis
    return fiis


def _introspect_fun(
    f: FunctionType,
    gctx: EvalMainContext,
    call_stack: List[CanonicalPath],
) -> FunctionIndirectInteractions:
    # Check if the function has already been evaluated.
    fun_path = function_path(f)

    fun_module = inspect.getmodule(f)
    if fun_module is None:
        msg = (
            f"Could not find the module for function {f} located at {fun_path}. "
            f"This usually happens when the function is defined at run time, or when the function"
            f"is moved between modules. Suggestion: rewrite your code to use functions instead, "
            f"or do not accept the module for this class (see dds.accept_module)."
        )
        raise DDSException(msg, DDSErrorCode.MODULE_NOT_FOUND)
    # _logger.debug(f"_introspect: {f}: fun_path={fun_path} fun_module={fun_module}")
    ast_f: Union[ast.Lambda, ast.FunctionDef]
    if is_lambda(f):
        # _logger.debug(f"_introspect: is_lambda: {f}")
        src = inspect.getsource(f)
        h = dds_hash(src)
        # Have a stable name for the lambda function
        fun_path = CanonicalPath(
            fun_path._path.parent.joinpath(fun_path._path.stem + h)
        )
        fiis_ = gctx.cached_indirect_interactions.get(fun_path)
        if fiis_ is not None:
            return fiis_
        # Not seen before, continue.
        # _logger.debug(f"_introspect: is_lambda: fun_path={fun_path} src={src}")
        ast_f = inspect_lambda_condition(f)
        assert isinstance(ast_f, ast.Lambda), type(ast_f)
        # _logger.debug(f"_introspect: is_lambda: {ast_f}")
    else:
        fiis_ = gctx.cached_indirect_interactions.get(fun_path)
        if fiis_ is not None:
            return fiis_
        src = inspect.getsource(f)
        # _logger.debug(f"Starting _introspect: {f}: src={src}")
        ast_src = ast.parse(src)
        ast_f = ast_src.body[0]  # type: ignore
        assert isinstance(ast_f, ast.FunctionDef), type(ast_f)
        # _logger.debug(f"_introspect ast_src:\n {pformat(ast_f)}")

    # The names of the arguments, which are considered as variable names.
    arg_names = [LocalVar(v) for v in get_arg_list(f)]
    fiis = InspectFunctionIndirect.inspect_fun(
        ast_f, gctx, fun_module, fun_path, arg_names, call_stack
    )
    # Cache the function interactions
    gctx.cached_indirect_interactions[fun_path] = fiis
    return fiis


class InspectFunctionIndirect(object):
    @classmethod
    def inspect_fun(
        cls,
        node: Union[ast.FunctionDef, ast.Lambda],
        gctx: EvalMainContext,
        mod: ModuleType,
        fun_path: CanonicalPath,
        arg_names: List[LocalVar],
        call_stack: List[CanonicalPath],
    ) -> FunctionIndirectInteractions:
        body: Sequence[ast.AST]
        if isinstance(node, ast.FunctionDef):
            body = node.body
        elif isinstance(node, ast.Lambda):
            body = [node.body]
        else:
            raise DDSException(
                f"unknown ast node {type(node)}", DDSErrorCode.UNKNOWN_AST_NODE
            )
        dummy_arg_ctx = FunctionArgContext(OrderedDict(), None)
        local_vars = set(
            InspectFunction.get_local_vars(body, dummy_arg_ctx, fun_path) + arg_names
        )
        # _logger.debug(f"inspect_fun: %s local_vars: %s", fun_path, local_vars)
        vdeps = ExternalVarsVisitor(mod, gctx, local_vars)
        for n in body:
            vdeps.visit(n)
        # _logger.debug(f"inspect_fun: %s ExternalVarsVisitor: %s", fun_path, vdeps.vars)
        calls_v = IntroVisitorIndirect(mod, gctx, local_vars, call_stack, fun_path)
        for n in body:
            calls_v.visit(n)

        # Look at the annotations to see if there is a reference to a data_function
        if isinstance(node, ast.FunctionDef):
            store_path = InspectFunction._path_annotation(node, mod, gctx)
        else:
            store_path = None
        # _logger.debug(f"inspect_fun: path from annotation: %s", store_path)

        return FunctionIndirectInteractions(
            store_path=store_path,
            fun_path=fun_path,
            indirect_deps=calls_v.results,
        )

    @classmethod
    def inspect_class(
        cls,
        node: ast.ClassDef,
        gctx: EvalMainContext,
        mod: ModuleType,
        fun_path: CanonicalPath,
        call_stack: List[CanonicalPath],
    ) -> FunctionIndirectInteractions:
        # Look into the base classes first.
        # TODO: take into account the base classes

        # All the body is considered as a single big function for the purpose of
        # code structure: the function interactions are built for each element,
        # but the code lines are provided from the top of the function.

        method_fis: List[FunctionIndirectInteractions] = []
        for elem in node.body:
            if isinstance(elem, ast.FunctionDef):
                # Parsing the function call
                # TODO: this does not include the names of the args. Class parsing will break if args have the same names as packages.
                fis_ = cls.inspect_fun(elem, gctx, mod, fun_path, [], call_stack)
                if fis_ is not None:
                    method_fis.append(fis_)
                    # _logger.debug(f"inspect_class: {fis_}")

        return FunctionIndirectInteractions(
            store_path=None,  # No store path can be associated by default to a class
            fun_path=fun_path,
            indirect_deps=method_fis,
        )

    @classmethod
    def inspect_call(
        cls,
        node: ast.Call,
        gctx: EvalMainContext,
        mod: ModuleType,
        var_names: Set[LocalVar],
        call_stack: List[CanonicalPath],
    ) -> Union[FunctionIndirectInteractions, DDSPath, None]:
        local_path = LocalDepPath(PurePosixPath("/".join(_function_name(node.func))))
        # _logger.debug(f"inspect_call: local_path: %s", local_path)
        # We may do sub-method calls on an object -> filter out based on the name of the object
        if str(local_path.parts[0]) in var_names:
            # _logger.debug(
            #     f"inspect_call: local_path: %s is rejected (head in vars)", local_path
            # )
            return None

        # _logger.debug(f"inspect_call:local_path:{local_path} mod:{mod}\n %s", pformat(node))
        z: ObjectRetrievalType = ObjectRetrieval.retrieve_object(local_path, mod, gctx)
        # _logger.debug(f"inspect_call:local_path:{local_path} mod:{mod} z:{z}")
        if z is None or isinstance(z, ExternalObject):
            # _logger.debug(f"inspect_call: local_path: %s is rejected", local_path)
            return None
        assert isinstance(z, AuthorizedObject)
        caller_fun, caller_fun_path = z.object_val, z.resolved_path
        if not isinstance(caller_fun, FunctionType) and not inspect.isclass(caller_fun):
            raise DDSException(
                f"Expected FunctionType or class for {caller_fun_path}, got {type(caller_fun)}",
                DDSErrorCode.UNSUPPORTED_CALLABLE_TYPE,
            )

        # Check if this is a call we should do something about.
        if caller_fun_path == CPU.from_list(["dds", "keep"]):
            # Call to the keep function:
            # - bring the path
            # - bring the callee
            # - parse the arguments
            # - introspect the callee
            if len(node.args) < 2:
                raise DDSException(
                    f"Wrong number of args: expected 2+, got {node.args}"
                )
            store_path = InspectFunction._retrieve_store_path(
                node.args[0], mod, gctx, local_path
            )
            called_path_ast = node.args[1]
            if isinstance(called_path_ast, ast.Name):
                called_path_symbol = node.args[1].id  # type: ignore
            else:
                raise DDSException(
                    f"Introspection of {local_path} failed: cannot use nested callables of"
                    f" type {called_path_ast}. Only "
                    f"regular function names are allowed for now. Suggestion: if you are "
                    f"using a complex callable such as a method, wrap it inside a top-level "
                    f"function.",
                    DDSErrorCode.UNSUPPORTED_CALLABLE_TYPE,
                )
            called_local_path = LocalDepPath(PurePosixPath(called_path_symbol))
            called_z: ObjectRetrievalType = ObjectRetrieval.retrieve_object(
                called_local_path, mod, gctx
            )
            if not called_z or isinstance(called_z, ExternalObject):
                # Not sure what to do yet in this case.
                raise DDSException(
                    f"Introspection of {local_path} failed: cannot access called function"
                    f" {called_local_path}. The function {called_local_path} was expected "
                    f"to be found in module {mod}, but could not be retrieved. The usual reason is"
                    f"that that this object is not a regular top-level function. "
                    f"Suggestion: ensure that this function is a top-level function.",
                    DDSErrorCode.UNSUPPORTED_CALLABLE_TYPE,
                )
            assert isinstance(called_z, AuthorizedObject)
            called_fun, call_fun_path = called_z.object_val, called_z.resolved_path
            if call_fun_path in call_stack:
                raise DDSException(
                    f"Detected circular function calls or (co-)recursive calls."
                    f"This is currently not supported. Change your code to split the "
                    f"recursive section into a separate function. "
                    f"Function: {call_fun_path}"
                    f"Call stack: {' '.join([str(p) for p in call_stack])}",
                    DDSErrorCode.CIRCULAR_CALL,
                )
            new_call_stack = call_stack + [call_fun_path]
            # For now, accept the constant arguments. This is enough for some basic objects.
            inner_intro = _introspect(called_fun, gctx, new_call_stack)
            inner_intro = inner_intro._replace(store_path=store_path)
            return inner_intro
        if caller_fun_path == CPU.from_list(["dds", "load"]):
            # Evaluation call: get the argument and returns the function interaction for this call.
            if len(node.args) != 1:
                raise DDSException(f"Wrong number of args: expected 1, got {node.args}")
            store_path = InspectFunction._retrieve_store_path(
                node.args[0], mod, gctx, local_path
            )
            _logger.debug(f"inspect_call:eval: store_path: {store_path}")
            return store_path

        if caller_fun_path == CPU.from_list(["dds", "eval"]):
            raise DDSException(
                f"Cannot process {local_path}: this function is calling dds.eval, which"
                f" is not allowed inside other eval calls. Suggestion: remove the "
                f"call to dds.eval inside {local_path}",
                DDSErrorCode.EVAL_IN_EVAL,
            )

        if caller_fun_path in call_stack:
            raise DDSException(
                f"Detected circular function calls or (co-)recursive calls."
                f"This is currently not supported. Change your code to split the "
                f"recursive section into a separate function. "
                f"Function: {caller_fun_path}"
                f"Call stack: {' '.join([str(p) for p in call_stack])}",
                DDSErrorCode.CIRCULAR_CALL,
            )
        # Normal function call.
        new_call_stack = call_stack + [caller_fun_path]
        return _introspect(caller_fun, gctx, new_call_stack)


class IntroVisitorIndirect(ast.NodeVisitor):
    def __init__(
        self,
        start_mod: ModuleType,
        gctx: EvalMainContext,
        function_var_names: Set[LocalVar],
        call_stack: List[CanonicalPath],
        fun_path: CanonicalPath,
    ):
        current_fun_name = LocalVar(CPU.last(fun_path))
        # TODO: start_mod is in the global context
        self._start_mod = start_mod
        self._gctx = gctx
        self._function_var_names = set(function_var_names)
        self._store_names: Set[LocalVar] = {current_fun_name}
        self._call_stack = call_stack
        # All the calls to a load and subsequent function calls, ordered
        self.results: List[Union[FunctionIndirectInteractions, DDSPath]] = []

    def visit_Call(self, node: ast.Call) -> Any:
        # _logger.debug(f"visit: {node} {dir(node)} {pformat(node)}")
        # The list of all the previous interactions.
        # Check the call for dds calls or sub_calls.
        fi_or_p = InspectFunctionIndirect.inspect_call(
            node,
            self._gctx,
            self._start_mod,
            self._function_var_names,
            self._call_stack,
        )
        if fi_or_p is not None:
            self.results.append(fi_or_p)
        self.generic_visit(node)

    def visit_Assign(self, node: ast.Assign) -> Any:
        targets = get_assign_targets(node)
        if targets:
            self._store_names.update(targets)
        self.generic_visit(node)

    def visit_Name(self, node: ast.Name) -> Any:
        # Look at names of variables that are names imported in the context of the function (in the module) but that are
        # not builtins.
        # This neglects the case of shadowing within the function: if the function has a variable that has the same name
        # as another function, then a mismatch will happen.
        if (
            node.id in self._start_mod.__dict__
            and node.id not in python_builtin_names
            and LocalVar(node.id) not in self._function_var_names
            and LocalVar(node.id) not in self._store_names
        ):
            # Quick check that it is indeed a function or a module:
            # TODO: add a test for modules
            obj = self._start_mod.__dict__[node.id]
            self._store_names.add(LocalVar(node.id))
            # Just handling functions, not modules.
            # Handling modules is more complicated (requires tracing the full call) and it can be easily worked around
            # by directly importing the function.
            if isinstance(obj, (FunctionType,)):
                # Building a fake AST node to handle functions called without arguments. They may not
                # _logger.debug(f"visit_name: {node} {pformat(node)} {self._store_names}")
                # No arg given
                call_node = ast.Call(
                    func=node, args=[], keywords=[], starargs=None, kwargs=None
                )
                fi_or_p = InspectFunctionIndirect.inspect_call(
                    call_node,
                    self._gctx,
                    self._start_mod,
                    self._function_var_names,
                    self._call_stack,
                )
                if fi_or_p is not None:
                    self.results.append(fi_or_p)

        self.generic_visit(node)
