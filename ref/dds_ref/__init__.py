import pathlib
import warnings
from types import ModuleType
from typing import TypeVar, Callable, Any, Optional, Union, List

from ._annotations import dds_function, data_function
from ._api import (
    keep as _keep,
    eval as _eval,
    load as _load,
    set_store as _set_store,
)
from ._version import version
from .introspect import accept_module as _accept_module
from .store import Store
from .structures import DDSPath, ProcessingStage, DDSException
from ._config import get_option, set_option, reset_option

__all__ = [
    "DDSException",
    "DDSPath",
    "keep",
    "eval",
    "whitelist_module",
    "accept_module",
    "set_store",
    "__version__",
    "dds_function",
    "data_function",
    "set_option",
    "get_option",
    "reset_option",
]

__version__ = version

_Out = TypeVar("_Out")
_In = TypeVar("_In")


def keep(
    path: Union[str, DDSPath, pathlib.Path],
    fun: Callable[..., _Out],
    *args: Any,
    **kwargs: Any
) -> _Out:
    """
    Stores the result of calling a function to a specific path. If this particular evaluation has not happened before,
    the function will be evaluated again (with the given arguments).

    For example, instead of writing:

    ```py
    data = my_function(arg1, arg2)
    ```

    you should use:

    ```py
    data = dds.keep(path, my_function, arg1, arg2)
    ```

    Arguments:
        path: a path in the storage system which will store the content of the function, evaluated to the given
            arguments. It is expected to be in absolute form (starting with "/" if a string
            or being an absolute path if a pathlib's `Path` object).

            If this path exists, it will be overwritten silently.

        fun: A function to evaluate. See text above on the limitations over this function

        args: the arguments of this function

        kwargs: *(keyworded arguments are currently unsupported)*

    return: the value that the function would produce for these arguments


    ### Accepted functions.

    In general, the functions that should be provided are *total, non-recursive, deterministic and referentially
     transparent*.

    Functions have currently the following restrictions:

    - no static method, class method
    - not recursive
    - no generators
    - the functions must be in an accepted module to be considered, see the `accept_module()` function

    They must return storable objects. The exact list depends on the store that is currently deployed.

    ### Accepted arguments.

    Only the following classes of arguments are accepted:

    - the basic types of python (int, str, bool, float)
    - lists and tuples of accepted arguments
    - dictionaries. They are evaluated as sorted lists (by their keys)

    ### Using complex arguments

    If more complex arguments should be accepted, two strategies are possible:
    - embed them inside the function call
    - wrap them inside a function which is then called through eval()

    Example: the following code will fail:

    ```py
    df = pd.DataFrame({"x":[1]})

    def my_stats(data: pd.DataFrame) -> int: return len(data)

    stats = dds.keep("/stats", my_stats, data)
    ```

    The workaround is to use a wrapper function that create the dataframe:

    ```py
    def my_pipeline():
        df = pd.DataFrame({"x":[1]})
        return dds.keep("/stats", my_stats, df) # This will work

    stats = dds.eval(my_pipeline)
    ```

    Another possibility is to move keep the result of the pipeline instead:

    ```py
    def my_pipeline2():
        df = pd.DataFrame({"x":[1]})
        return my_stats(df)

    stats = dds.keep("/stats", my_pipeline2)
    ```


    The difference is that my_pipeline will be evaluated at each call (but not my_stats), while my_pipeline2 will
    only be evaluated once.

    """
    return _keep(path, fun, *args, **kwargs)


def eval(
    fun: Callable[..., _Out],
    *args: Any,
    dds_export_graph: Union[str, pathlib.Path, None] = None,
    dds_extra_debug: Optional[bool] = None,
    dds_stages: Optional[List[Union[str, ProcessingStage]]] = None,
    **kwargs: Any
) -> Optional[_Out]:
    """
    Evaluates a function. The result of the function is not stored in the data store, but the function itself may
    contain multiple calls to keep().

    This function is useful to consider in one evaluation multiple functions that may themselves call keep() or
    refer to each other. eval() allows keep() calls to refer to complex arguments that cannot be evaluated before
    runtime. eval() als ensures some basic rules such as no circular references, and will eventually
    enable automatic parallel execution of internal statements.

    See also the documentation of keep() for an example of eval().

    Arguments:
      fun: the function to call.

      args: the optional arguments for this function.

        NOTE: keyworded arguments are not supported yet.

      dds_extra_debug: If true, will compute extra statistics to assist with debugging.
        As implemented, it reaches to the store to check which blobs need to be computed.

      dds_export_graph: if specified, a file with the dependency graph of the function will be exported.

        NOTE: this requires the pydot or pydotplus package to be installed, as well as the graphviz program.
        These packages must be installed separately. If they are not present, a runtime error will be triggered.

    Simple example.

    In this example, the function is evaluated only once and its result is served to f1 and f2.

    ```py
    def f1_internal(): return 1

    def f1(): return dds.keep("/f1_value", f1_internal)

    def f2(): return 2 + f1()

    def all_fs():
        f1()
        dds.keep("/f2_value", f2)
    ```

    """
    return _eval(fun, args, kwargs, dds_export_graph, dds_extra_debug, dds_stages)


def load(path: Union[str, DDSPath, pathlib.Path]) -> Any:
    """
    Loads the content of an object that has already been stored.

    This command is useful to refer to an object by its *path* instead of using the data function that was used
    to generate it.

    For example, if an object was created with a call to the *keep* function, then *load* can be used
    to retrieve an object later:

    ```py
    _ = dds.keep("/my_path", data_function)
    data = dds.load("/my_path")
    ```

    This function can be used standalone or within an evaluation (i.e. through using *eval()*). In that case,
    some invariants will be checked:
    - loops are not allowed: it is not allowed to both load and output the same path within the same evaluation
    - the signature of the latest version of the loaded data is included in the signature calculation. If the data
    accessed through *load* changes, this will change the signature of the function and may retrigger some evaluations.

    This is useful in the case the data function that generated the data artifact in the first place is not accessible,
    for security reasons for example. The data artifact can still be loaded with the latest version, but it may not
    be up to date with the data function. See the user guide of dds for a more complete presentation on when
    to use *keep*.
    """
    return _load(path)


def set_store(
    store: Union[str, Store],
    internal_dir: Optional[str] = None,
    data_dir: Optional[str] = None,
    dbutils: Optional[Any] = None,
    commit_type: Optional[str] = None,
    cache_objects: Union[None, bool, int] = None,
) -> None:
    """
    Sets a new store or replaces the existing store.

    By default, a local store is created, pointing to the
    temporary directory of the current operating system:

      - /tmp/dds/data for the user data
      - /tmp/dds/internal for the blobs

    The exact paths of the default store may change in the future.

    Arguments:

      store: a type of store. Four values are supported by default:

        - `local`: local file system (default)
        - `dbfs`: the Databricks file system (only valid for the Databricks environment)
        - `memory`: in-memory storage (useful for debugging and testing)
        - `noop`: no-op storage (nothing gets stored, useful for debugging)

      internal_dir:  a path in a filesystem for the internal storage. The internal storage contains evaluated blobs
          and corresponding metadata. Accepted values are:

          - local: a path in the local filesystem
          - dbfs: a path in DBFS

      data_dir: a path in a filesystem for the data storage. All paths provided by the user are guaranteed to map
           to a path in the given data storage.

        - for local: a path in the local filesystem. It contains symbolic links to the internal storage
        - for dbfs: a path in DBFS. Objects are copied from the internal storage to the data storage

      dbutils: (optional, valid only for the 'dbfs' store) the `dbutils` object that is in a notebook. If not provided,
        DDS will use reflection facilities from IPython to load it.

      commit_type: (DBFS only, 'none', 'links_only', 'full', default 'full'). The type of commit that will be
        executed to update the paths. Committing a path in DBFS involves a full copy, which may be expensive,
        especially if the underlying table uses Databricks Delta. This is why the following options can be used:

        - none: no file will be committed. Useful for debugging.

        - links_only: a metadata link reference to the blob will be updated. This is much faster because it involves
            a 1kb file transfer of metadata as opposed to a full copy of a dataset.
             However, this means that the final tables are not readable by systems other than DDS, unless they understand
             the DDS file protocol.

        - full: the full dataset and metadata are transfered.

            NOTE: integration with Delta: the full transfer is currently implemented as an overwrite operation. This is
            compatible with the Delta IO protocol which will allow the user to revert to older versions if necessary.

            NOTE: costs: in order for DDS to work, the data must be at least in the internal store, and also copied to
            the final place. In the case of large tables, this may incur extra storage costs.

      cache_objects: (optional, true/false or a positive integer, 0 means no caching, negative number means everything
         cached). Sets a caching level of the objects (not the paths).
         With the cache enabled, if an object has already been fetched from the store, it may be kept in memory
         and reserved later.

         Caching the objects has no effect on coherence and may be safely used with the local store, or with
          distributed stores such as DBFS. However, if large objects are returned, they may lead to the main process
          running out of memory.

         This option has no effect on updating paths. Paths are always checked against the store (even if it means
         reaching out to a remote server). This is done in order to prevent coherence issues in case paths are
         updated on a remote server.

         A positive integer argument indicate that no more than so many objects are being retained by the current
         python process in memory.

         The exact details of the caching strategy are left as an implementation detail and should not be relied upon.
         The cache is currently implemented as a LRU cache on the most recent fetched objects.

         This option is not compatible with providing a `Store` object as an argument.

    :return: nothing
    """
    _set_store(store, internal_dir, data_dir, dbutils, commit_type, cache_objects)


def accept_module(module: Union[str, ModuleType]) -> None:
    """
    Marks a module as accepted for introspection. Only functions in the current scope and in accepted modules
    will be considered for the evaluation.

    Example to ensure that all the functions in my_lib are considered by DDS.

    ```py
    import my_lib
    dds.accept_module(my_lib)
    ```

    The example above causes the `my_lib` module to be imported. If it is not desired, the name of the module can
    be passed instead:

    ```py
    dds.accept_module("my_lib")
    ```

    """
    return _accept_module(module)


def whitelist_module(module: Union[str, ModuleType]) -> None:
    """
    Marks a module as whitelisted for introspection. Only functions in the current scope and in whitelisted modules
    will be considered for the evaluation.

    DEPRECATED: use the `accept_module` function instead.
    """
    warnings.warn(
        "The whitelist_module function has been renamed to 'accept_module', use 'accept_module' instead.",
        DeprecationWarning,
    )
    return _accept_module(module)
