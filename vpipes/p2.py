"""P2: kept paths are module variables (chosen by the harness); VERSION is a tracked variable.
root  -> keep(PA, outer) -> keep(PB, inner);   root2 -> keep(PC, side)."""
import dds
from vlib import tick

VERSION = 1
PA = "/a"
PB = "/b"
PC = "/c"


def inner():
    tick.hit("inner")
    return "in%d:" % VERSION + tick.pay("inner")


def outer():
    x = dds.keep(PB, inner)
    tick.hit("outer")
    return "out%d:" % VERSION + x


def root():
    return dds.keep(PA, outer)


def side():
    tick.hit("side")
    return "side%d:" % VERSION + tick.pay("side")


def root2():
    return dds.keep(PC, side)


def plain(entry):
    """path -> value of what the entry keeps when run without dds."""
    if entry == "root":
        i = "in%d:" % VERSION + tick.pay("inner")
        return {PB: i, PA: "out%d:" % VERSION + i}
    return {PC: "side%d:" % VERSION + tick.pay("side")}
