"""Concrete pipelines used by the protocol-level harnesses (C04, C06, C07, C10, C15, C16, C19).
The package is accepted with dds.accept_module("vpipes")."""
