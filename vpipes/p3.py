"""P3: depth 3, a shared sub-node, and a keep with a run-time argument."""
import dds
from vlib import tick


def leaf():
    tick.hit("leaf")
    return "L" + tick.pay("p")


def mid():
    a = dds.keep("/m/leaf", leaf)
    tick.hit("mid")
    return "M" + a


def shared():
    tick.hit("shared")
    return "S" + tick.pay("p")


def arg_fun(x):
    tick.hit("arg")
    return "A%d" % x


def top(n):
    s1 = dds.keep("/m/shared", shared)
    m = dds.keep("/m/mid", mid)
    z = n + 1
    r = dds.keep("/m/arg", arg_fun, z)
    tick.hit("top")
    return "T" + m + s1 + r


# order of user-function invocations of a cold run of dds.eval(top, n): shared, leaf, mid, arg, top
ORDER = ["shared", "leaf", "mid", "arg", "top"]
# kept path of each node and the nodes waiting for it when it runs
PATH = {"shared": "/m/shared", "leaf": "/m/leaf", "mid": "/m/mid", "arg": "/m/arg"}
WAITING = {"shared": ["top"], "leaf": ["mid", "top"], "mid": ["top"], "arg": ["top"], "top": []}
COMPLETED_BEFORE = {"shared": [], "leaf": ["shared"], "mid": ["shared", "leaf"], "arg": ["shared", "leaf", "mid"], "top": ["shared", "leaf", "mid", "arg"]}


def plain(n):
    p = tick.pay("p")
    out = {"/m/shared": "S" + p, "/m/leaf": "L" + p, "/m/mid": "ML" + p, "/m/arg": "A%d" % (n + 1)}
    out["top"] = "T" + out["/m/mid"] + out["/m/shared"] + out["/m/arg"]
    return out
