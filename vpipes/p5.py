"""P5: three kept paths, two independent tracked variables. top -> keep(/q/a, f0 [VA]) ; keep(/q/b, f1) ; f1 -> keep(/q/c, f2 [VB])"""
import dds
from vlib import tick

VA = 1
VB = 1


def f0():
    tick.hit("f0")
    return "a%d:" % VA + tick.pay("p")


def f2():
    tick.hit("f2")
    return "c%d:" % VB + tick.pay("p")


def f1():
    x = dds.keep("/q/c", f2)
    tick.hit("f1")
    return "b:" + x


def top():
    a = dds.keep("/q/a", f0)
    b = dds.keep("/q/b", f1)
    return a + "|" + b


def top2():
    # as top, and the function kept at /q/a is kept once more, at /q/a2, right after it (same signature, another path)
    a = dds.keep("/q/a", f0)
    a2 = dds.keep("/q/a2", f0)
    b = dds.keep("/q/b", f1)
    return a + "|" + b + "|" + a2


def plain(extra=False):
    p = tick.pay("p")
    out = {"/q/a": "a%d:" % VA + p, "/q/c": "c%d:" % VB + p}
    out["/q/b"] = "b:" + out["/q/c"]
    out["top"] = out["/q/a"] + "|" + out["/q/b"]
    if extra:
        out["/q/a2"] = out["/q/a"]
        out["top"] = out["top"] + "|" + out["/q/a2"]
    return out
