"""P4: three kept paths given by module variables, at different nesting positions.
top -> keep(P0, f0) ; keep(P1, f1) ; f1 -> keep(P2, f2)"""
import dds
from vlib import tick

P0 = "/a"
P1 = "/b"
P2 = "/c"


def f0():
    tick.hit("f0")
    return "v0" + tick.pay("p")


def f2():
    tick.hit("f2")
    return "v2" + tick.pay("p")


def f1():
    x = dds.keep(P2, f2)
    tick.hit("f1")
    return "v1" + x


def top():
    a = dds.keep(P0, f0)
    b = dds.keep(P1, f1)
    tick.hit("top")
    return a + b


def plain():
    p = tick.pay("p")
    return "v0" + p + "v1" + "v2" + p
