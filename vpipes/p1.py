"""P1: nested keep. root -> keep(/out, outer) -> keep(/d/in, inner). VERSION is a tracked variable."""
import dds
from vlib import tick

VERSION = 1


def inner():
    tick.hit("inner")
    return "in%d:" % VERSION + tick.pay("inner")


def outer():
    x = dds.keep("/d/in", inner)
    tick.hit("outer")
    return "out:" + x + tick.pay("outer")


def root():
    return dds.keep("/out", outer)


def plain():
    """What running the same code without dds returns."""
    i = "in%d:" % VERSION + tick.pay("inner")
    return {"/d/in": i, "/out": "out:" + i + tick.pay("outer")}
