"""
Helpers shared by all harness modules (imported inside the query process and,
for replay, inside a plain interpreter).
"""
import os
import struct  # noqa: F401  (available to known-finding predicates)
import sys
from collections import OrderedDict  # noqa: F401

# Discrete selectors of the current query (set by vlib.ch from the query file).
SEL = {}
# Reachability twin: the final assertion is replaced by False.
TWIN = False
# Number of times a harness body was entered in this process (= paths started).
ENTERED = [0]

_BLOCKS = []  # compiled (source, code) pairs


def set_blocks(exprs):
    del _BLOCKS[:]
    for e in exprs:
        _BLOCKS.append((e, compile(e, "<block>", "eval")))


def blocked(**args):
    """True iff the harness arguments match a blocked (known / spurious) case.

    The predicates are evaluated on the (possibly symbolic) arguments, so a
    block is a path condition, exactly like an extra precondition.
    """
    if not _BLOCKS:
        return False
    ns = {"sel": SEL, "struct": struct}
    ns.update(args)
    for (_src, code) in _BLOCKS:
        if eval(code, {"__builtins__": __builtins__}, ns):
            return True
    return False


def match_expr(expr, args, sel):
    ns = {"sel": sel, "struct": struct}
    ns.update(args)
    try:
        return bool(eval(expr, {"__builtins__": __builtins__}, ns))
    except Exception:
        return False


def verdict(ok):
    """Final assertion of a harness. The twin refutes here, proving reachability."""
    if TWIN:
        return False
    return bool(ok)


def enter():
    ENTERED[0] += 1


# ---------------------------------------------------------------------------
# dds process-level state


def install_clock():
    """Clock stubs (DESIGN 3.6): time only feeds statistics and the meta timestamp."""
    import dds._api as api
    import dds.store as store

    api._time = lambda: 0.0
    store.current_timestamp = lambda: 1700000000000


def quiet_logs():
    import logging

    logging.disable(logging.CRITICAL)


def fresh_process():
    """Reset everything dds keeps at process level (DESIGN 4.4)."""
    import dds._api as api
    import dds.introspect as intro
    import dds.codec as codec
    import dds._config as cfg
    import dds._global_ctx as gc

    api._store_var = None
    api._eval_ctx = None
    intro._global_context = gc.GlobalContext()
    gc._global_context = intro._global_context
    codec._registry = None
    for o in cfg._options:
        cfg._options_values[o.key] = o.default
    keep = {"dds", "__main__", "__global__"}
    for p in list(intro._accepted_packages):
        if p not in keep:
            intro._accepted_packages.discard(p)
    for p in keep:
        intro._accepted_packages.add(p)


def repo_root():
    return os.environ.get("VERIF_REPO", "/repo")
