"""
Helpers shared by all harness modules (imported inside the query process and,
for replay, inside a plain interpreter).
"""
import os
import struct  # noqa: F401  (available to known-finding predicates)
import sys
from collections import OrderedDict  # noqa: F401

# Discrete selectors of the current query (set by vlib.ch from the query file).
SEL = {}
# Reachability twin: the final assertion is replaced by False.
TWIN = False
# Number of times a harness body was entered in this process (= paths started).
ENTERED = [0]

_BLOCKS = []  # compiled (source, code) pairs


def set_blocks(exprs):
    del _BLOCKS[:]
    for e in exprs:
        _BLOCKS.append((e, compile(e, "<block>", "eval")))


HARNESS = [None]  # the harness module of the current query (for known-finding predicates: `H`)


def blocked(**args):
    """True iff the harness arguments match a blocked (known / spurious) case.

    The predicates are evaluated on the (possibly symbolic) arguments, so a
    block is a path condition, exactly like an extra precondition.
    """
    if not _BLOCKS:
        return False
    ns = {"sel": SEL, "struct": struct, "H": HARNESS[0], "A": args}
    ns.update(args)
    for (_src, code) in _BLOCKS:
        if eval(code, {"__builtins__": __builtins__}, ns):
            return True
    return False


def match_expr(expr, args, sel, harness=None):
    ns = {"sel": sel, "struct": struct, "H": harness, "A": args}
    ns.update(args)
    try:
        return bool(eval(expr, {"__builtins__": __builtins__}, ns))
    except Exception:
        return False


def verdict(ok):
    """Final assertion of a harness. The twin refutes here, proving reachability."""
    if TWIN:
        return False
    return bool(ok)


def enter():
    ENTERED[0] += 1


# ---------------------------------------------------------------------------
# dds process-level state


def install_clock():
    """Clock stubs (DESIGN 3.6): time only feeds statistics and the meta timestamp."""
    import dds._api as api
    import dds.store as store

    api._time = lambda: 0.0
    store.current_timestamp = lambda: 1700000000000
    import dds.codecs.databricks as dbx  # binds current_timestamp by name at import

    dbx.current_timestamp = store.current_timestamp


def quiet_logs():
    import logging

    logging.disable(logging.CRITICAL)


def fresh_process():
    """Reset everything dds keeps at process level (DESIGN 4.4)."""
    import dds._api as api
    import dds.introspect as intro
    import dds.codec as codec
    import dds._config as cfg
    import dds._global_ctx as gc

    api._store_var = None
    api._eval_ctx = None
    intro._global_context = gc.GlobalContext()
    gc._global_context = intro._global_context
    codec._registry = None
    for o in cfg._options:
        cfg._options_values[o.key] = o.default
    keep = {"dds", "__main__", "__global__"}
    for p in list(intro._accepted_packages):
        if p not in keep:
            intro._accepted_packages.discard(p)
    for p in keep:
        intro._accepted_packages.add(p)


def repo_root():
    return os.environ.get("VERIF_REPO", "/repo")


# ---------------------------------------------------------------------------
# generated harness functions: a query only carries the symbolic leaves it uses


def gen_fn(tag, name, params, pres, impl_module, impl_name):
    """Writes a harness function (PEP-316 docstring) with exactly `params` = [(name, type)] into the
    scratch directory and imports it. The body delegates to impl_module.impl_name(dict_of_args)."""
    import importlib.util
    import tempfile

    scratch = os.environ.get("VERIF_SCRATCH") or tempfile.mkdtemp(prefix="verif-gen-")
    sig = ", ".join("%s: %s" % (n, t) for (n, t) in params)
    doc = "".join("    pre: %s\n" % p for p in pres)
    call = ", ".join("%s=%s" % (n, n) for (n, _t) in params)
    src = (
        "from %s import %s as _impl\n\n\ndef %s(%s) -> bool:\n    \"\"\"\n%s    post: _\n    \"\"\"\n    return _impl(dict(%s))\n"
        % (impl_module, impl_name, name, sig, doc, call)
    )
    safe = "".join(c if c.isalnum() else "_" for c in tag)
    path = os.path.join(scratch, "gen_%s_%d.py" % (safe, os.getpid()))
    with open(path, "w") as f:
        f.write(src)
    spec = importlib.util.spec_from_file_location("gen_" + safe, path)
    mod = importlib.util.module_from_spec(spec)
    sys.modules[spec.name] = mod
    spec.loader.exec_module(mod)
    return getattr(mod, name)


def is_concrete(v):
    """True iff v is a plain Python value (not a CrossHair proxy)."""
    try:
        from crosshair.tracers import NoTracing
    except ImportError:
        return True
    with NoTracing():
        return type(v) in (int, float, str, bool, bytes, type(None))


def decode_args(args):
    """JSON-safe counterexample arguments back to Python values (bytes are stored as {"__bytes__": hex})."""
    if not isinstance(args, dict):
        return args
    return dict((k, (bytes.fromhex(v["__bytes__"]) if isinstance(v, dict) and "__bytes__" in v else v)) for k, v in args.items())


def save_process():
    """Snapshot of the dds process-level state (to come back to a long-lived process after simulating another one)."""
    import dds._api as api
    import dds.introspect as intro
    import dds.codec as codec
    import dds._config as cfg
    import dds._global_ctx as gc

    return {"store": api._store_var, "gctx": intro._global_context, "registry": codec._registry, "options": dict(cfg._options_values), "accepted": set(intro._accepted_packages)}


def restore_process(st):
    import dds._api as api
    import dds.introspect as intro
    import dds.codec as codec
    import dds._config as cfg
    import dds._global_ctx as gc

    api._store_var = st["store"]
    api._eval_ctx = None
    intro._global_context = st["gctx"]
    gc._global_context = st["gctx"]
    codec._registry = st["registry"]
    cfg._options_values.update(st["options"])
    for p in list(intro._accepted_packages):
        if p not in st["accepted"]:
            intro._accepted_packages.discard(p)
    for p in st["accepted"]:
        intro._accepted_packages.add(p)
