"""
Single-query runner: symbolic execution of ONE harness function with CrossHair/z3.

Invoked in its own OS process (CrossHair is not re-entrant):

    python -m vlib.ch <query.json> <result.json>

query.json = {"id":..., "module": "harness.C12", "fn": "step", "sel": {...},
              "timeout": 60, "per_path_timeout": 20, "twin": false, "blocks": [ "<expr>", ...]}

result.json = {"state": CONFIRMED | REFUTED | UNKNOWN | PRE_UNSAT | ERROR,
               "args": {...} | null, "message": str, "paths": int,
               "confirmed_paths": int, "smt_calls": int, "solver_s": float,
               "wall_s": float, "cpu_s": float}

Exit code of this process is always 0 unless the runner itself broke (then the
driver treats the query as a harness error).
"""
import ast
import collections
import importlib
import json
import os
import re
import sys
import time
import traceback

HERE = os.path.dirname(os.path.dirname(os.path.abspath(__file__)))
if HERE not in sys.path:
    sys.path.insert(0, HERE)


NO_LOG_STUB = [False]  # queries whose subject is an error message run without the message stub


def _install_crosshair_patches():
    import z3
    import crosshair.core as core

    stats = {"smt_calls": 0, "solver_s": 0.0}
    orig_check = z3.Solver.check

    def counted_check(self, *a, **kw):
        t = time.perf_counter()
        try:
            return orig_check(self, *a, **kw)
        finally:
            stats["smt_calls"] += 1
            stats["solver_s"] += time.perf_counter() - t

    z3.Solver.check = counted_check

    # Never volunteer a short-circuit: CrossHair's own hash() patch carries a
    # contract and would otherwise be replaced by an uninterpreted value, which
    # kills every path through pathlib's __hash__.
    def no_shortcircuit(*a, **kw):
        return None

    core.consider_shortcircuit = no_shortcircuit

    captured = {}
    orig_calltree = core.analyze_calltree

    def capturing_calltree(options, conditions):
        if options.stats is None:
            options.stats = collections.Counter()
        res = orig_calltree(options, conditions)
        captured["confirmed_paths"] = res.num_confirmed_paths
        captured["paths"] = options.stats.get("num_paths", 0)
        return res

    core.analyze_calltree = capturing_calltree
    if not NO_LOG_STUB[0]:
        _install_log_format_stub()
    return stats, captured


def log_format_lines():
    """(filename, lineno) of every f-string field that only feeds a logger call, an exception
    message or an assert message in /repo/dds (computed from the current source)."""
    from vlib import h

    out = set()
    root = os.path.join(h.repo_root(), "dds")
    for dp, _dn, fns in os.walk(root):
        for fn in fns:
            if not fn.endswith(".py"):
                continue
            path = os.path.join(dp, fn)
            try:
                tree = ast.parse(open(path).read())
            except SyntaxError:
                continue
            targets = []
            for node in ast.walk(tree):
                if isinstance(node, ast.Call):
                    f = node.func
                    if isinstance(f, ast.Attribute) and isinstance(f.value, ast.Name) and f.value.id in ("_logger", "logging", "warnings"):
                        targets.append(node)
                elif isinstance(node, ast.Raise) and node.exc is not None:
                    targets.append(node.exc)
                elif isinstance(node, ast.Assert) and node.msg is not None:
                    targets.append(node.msg)
                elif isinstance(node, ast.Assign) and len(node.targets) == 1 and isinstance(node.targets[0], ast.Name) and node.targets[0].id == "msg":
                    targets.append(node.value)
            for t in targets:
                for sub in ast.walk(t):
                    if isinstance(sub, ast.FormattedValue):
                        for ln in range(sub.lineno, (sub.end_lineno or sub.lineno) + 1):
                            out.add((os.path.realpath(path), ln))
    return out


def _install_log_format_stub():
    """Logging / message formatting gets an empty body (formatting is never the subject of a
    property here, and CrossHair's f-string support deep-realizes every formatted object)."""
    import crosshair.opcode_intercept as oi
    from crosshair.tracers import frame_stack_write, COMPOSITE_TRACER

    class _Blank:
        def __format__(self, spec):
            return ""

        def __str__(self):
            return ""

        __repr__ = __str__

    blank = _Blank()
    lines = log_format_lines()
    orig = oi.FormatValueInterceptor.trace_op
    cache = {}

    def trace_op(self, frame, codeobj, codenum):
        fn = frame.f_code.co_filename
        rp = cache.get(fn)
        if rp is None:
            rp = cache[fn] = os.path.realpath(fn)
        if (rp, frame.f_lineno) in lines:
            flags = oi.frame_op_arg(frame)
            value_idx = -2 if flags == 0x04 else -1
            frame_stack_write(frame, value_idx, blank)
            return
        return orig(self, frame, codeobj, codenum)

    oi.FormatValueInterceptor.trace_op = trace_op


_CALL_RE = re.compile(r"when calling (\w+)\((.*)\)(?: \(which returns.*)?$", re.S)


def parse_counterexample(message: str, fn):
    """Extract concrete arguments from CrossHair's 'when calling f(a, b=..)' text."""
    import inspect

    m = re.search(r"when calling (\w+)\(", message)
    if not m:
        return None
    start = m.start(1)
    text = message[start:]
    # find the matching parenthesis of the call
    depth = 0
    end = None
    in_str = None
    i = 0
    while i < len(text):
        c = text[i]
        if in_str:
            if c == "\\":
                i += 2
                continue
            if c == in_str:
                in_str = None
        else:
            if c in "\"'":
                in_str = c
            elif c == "(":
                depth += 1
            elif c == ")":
                depth -= 1
                if depth == 0:
                    end = i + 1
                    break
        i += 1
    if end is None:
        return None
    call_src = text[:end]
    try:
        node = ast.parse(call_src, mode="eval").body
        assert isinstance(node, ast.Call)
        names = list(inspect.signature(fn).parameters.keys())
        out = {}
        def lit(a):
            if isinstance(a, ast.Call) and isinstance(a.func, ast.Name) and a.func.id == "float" and len(a.args) == 1:
                return float(ast.literal_eval(a.args[0]))
            return ast.literal_eval(a)

        for name, a in zip(names, node.args):
            out[name] = lit(a)
        for kw in node.keywords:
            out[kw.arg] = lit(kw.value)
        return out
    except Exception:
        return {"__unparsed__": call_src}


def run_query(q):
    t0 = time.perf_counter()
    c0 = time.process_time()
    NO_LOG_STUB[0] = bool((q.get("sel") or {}).get("no_log_stub"))
    stats, captured = _install_crosshair_patches()
    from crosshair.core_and_libs import analyze_function, run_checkables
    from crosshair.options import AnalysisOptionSet
    from crosshair.statespace import MessageType

    import vlib.h as h

    h.SEL.clear()
    h.SEL.update(q.get("sel") or {})
    h.TWIN = bool(q.get("twin"))
    # the reachability twin ignores blocks: it witnesses that the assertion is reachable under the
    # preconditions, whether or not the witness belongs to a recorded finding
    h.set_blocks([] if h.TWIN else (q.get("blocks") or []))
    mod = importlib.import_module(q["module"])
    h.HARNESS[0] = mod
    if hasattr(mod, "setup_query"):
        mod.setup_query(h.SEL)
    if hasattr(mod, "make_fn"):
        fn = mod.make_fn(q["fn"], h.SEL, q.get("id", "q"))
    else:
        fn = getattr(mod, q["fn"])
    timeout = float(q.get("timeout", 60))
    opts = AnalysisOptionSet(
        per_condition_timeout=timeout,
        per_path_timeout=float(q.get("per_path_timeout", max(10.0, timeout / 4))),
        max_uninteresting_iterations=sys.maxsize - 1,
        max_iterations=sys.maxsize,
        report_all=True,
    )
    checkables = analyze_function(fn, opts)
    if not checkables:
        return {"state": "ERROR", "message": "no conditions found on harness", "args": None}
    msgs = run_checkables(checkables)
    state = "UNKNOWN"
    message = ""
    args = None
    order = {
        MessageType.POST_FAIL: 0,
        MessageType.EXEC_ERR: 0,
        MessageType.POST_ERR: 0,
        MessageType.PRE_UNSAT: 1,
        MessageType.SYNTAX_ERR: 1,
        MessageType.IMPORT_ERR: 1,
        MessageType.CANNOT_CONFIRM: 2,
        MessageType.CONFIRMED: 3,
    }
    msgs = sorted(msgs, key=lambda m: order.get(m.state, 2))
    if msgs:
        m = msgs[0]
        message = m.message
        if m.state in (MessageType.POST_FAIL, MessageType.EXEC_ERR, MessageType.POST_ERR):
            state = "REFUTED"
            args = parse_counterexample(m.message, fn)
            if m.state != MessageType.POST_FAIL:
                message = m.message + "\n" + (m.traceback or "")[-1500:]
        elif m.state == MessageType.CONFIRMED:
            state = "CONFIRMED"
        elif m.state == MessageType.PRE_UNSAT:
            state = "PRE_UNSAT"
        elif m.state in (MessageType.SYNTAX_ERR, MessageType.IMPORT_ERR):
            state = "ERROR"
        else:
            state = "UNKNOWN"
    return {
        "state": state,
        "message": message,
        "args": args,
        "paths": captured.get("paths", 0),
        "confirmed_paths": captured.get("confirmed_paths", 0),
        "smt_calls": stats["smt_calls"],
        "solver_s": round(stats["solver_s"], 3),
        "wall_s": round(time.perf_counter() - t0, 3),
        "cpu_s": round(time.process_time() - c0, 3),
    }


def main():
    qfile, rfile = sys.argv[1], sys.argv[2]
    with open(qfile) as f:
        q = json.load(f)
    try:
        res = run_query(q)
    except BaseException as e:  # runner failure, reported as harness error
        res = {
            "state": "ERROR",
            "message": "runner: " + "".join(traceback.format_exception(type(e), e, e.__traceback__))[-3000:],
            "args": None,
        }
    res["id"] = q.get("id")
    if isinstance(res.get("args"), dict):
        res["args"] = dict((k, ({"__bytes__": v.hex()} if isinstance(v, (bytes, bytearray)) else v)) for k, v in res["args"].items())
    with open(rfile, "w") as f:
        json.dump(res, f, default=repr)


if __name__ == "__main__":
    main()
