"""
Preflight: the environment models are installed by assigning module attributes
(dds.fun_args.hashlib = ..., dds.store.os = ...). If a refactoring makes another
dds module use one of those names, the stub would be bypassed silently. This scan
of /repo/dds/**/*.py (AST, current working tree) reports that as a harness error.
"""
import ast
import os

from . import h

SENSITIVE = {"hashlib", "struct", "os", "time", "tempfile", "random", "uuid", "shutil", "subprocess", "socket", "io"}
SENSITIVE_CALLS = {"open", "id", "hash"}


def scan():
    root = os.path.join(h.repo_root(), "dds")
    uses = {}
    for dp, _dn, fns in os.walk(root):
        for fn in fns:
            if not fn.endswith(".py"):
                continue
            p = os.path.join(dp, fn)
            rel = os.path.relpath(p, os.path.dirname(root))[:-3].replace(os.sep, ".")
            try:
                tree = ast.parse(open(p).read())
            except SyntaxError as e:
                uses.setdefault("__syntax_error__", set()).add("%s: %s" % (rel, e))
                continue
            for node in ast.walk(tree):
                if isinstance(node, ast.Import):
                    for a in node.names:
                        top = a.name.split(".")[0]
                        if top in SENSITIVE:
                            uses.setdefault(top, set()).add(rel)
                elif isinstance(node, ast.ImportFrom):
                    top = (node.module or "").split(".")[0]
                    if node.level == 0 and top in SENSITIVE:
                        uses.setdefault(top, set()).add(rel)
                elif isinstance(node, ast.Call) and isinstance(node.func, ast.Name) and node.func.id in SENSITIVE_CALLS:
                    uses.setdefault(node.func.id + "()", set()).add(rel)
    return uses


def run(prop, stubbed):
    """stubbed: {name: [modules in which the harness replaces it]} or None (no stubs)."""
    uses = scan()
    if "__syntax_error__" in uses:
        return "syntax error in repo: %s" % sorted(uses["__syntax_error__"])
    if not stubbed:
        return None
    problems = []
    for name, mods in stubbed.items():
        extra = sorted(m for m in uses.get(name, set()) if m not in mods)
        if extra:
            problems.append("%s is used by %s but stubbed only in %s" % (name, extra, sorted(mods)))
    return "; ".join(problems) or None
