"""
Native analysis (DESIGN 2.2): for protocol-level harnesses whose pipelines are concrete, dds's static
analysis (introspect, introspect_indirect, get_arg_ctx) runs with CrossHair tracing switched off. The
traced region is _eval_new_ctx / _eval / the store. Assumption recorded in the evidence of every check
that uses it: the analysis is a deterministic function of the concrete program (which C03 decides) and
performs no store or file-system operation.
"""


def _native(fn):
    try:
        from crosshair.tracers import NoTracing, is_tracing
    except ImportError:
        return fn

    def wrapper(*a, **kw):
        if not is_tracing():
            return fn(*a, **kw)
        with NoTracing():
            return fn(*a, **kw)

    wrapper.__wrapped__ = fn
    return wrapper


_DONE = [False]


def install():
    if _DONE[0]:
        return
    import dds._api as api

    api.introspect = _native(api.introspect)
    api.introspect_indirect = _native(api.introspect_indirect)
    api.get_arg_ctx = _native(api.get_arg_ctx)
    api.FunctionInteractionsUtils.pprint_tree = classmethod(lambda cls, *a, **kw: None)
    _DONE[0] = True


ASSUMPTION = "native analysis: introspect / introspect_indirect / get_arg_ctx run untraced on the concrete pipeline (deterministic for a fixed program - decided by C03 - and free of store operations); pprint_tree (debug formatting) has an empty body"
