"""
File-system model (DESIGN 3.3) with crash injection (3.4) and a scheduling hook (3.5).

install(fs) rebinds the names `os` and `open` inside dds.store and `open` inside
dds.codecs.builtins to facades over one FS object. Every access goes through
FS.do(op, ...), the single point where a crash or a pre-emption can happen.

Node table: absolute normalised path -> ("dir",) | ("file", bytes) | ("link", target).
POSIX resolution: "." and "..", relative link targets resolved against the link's
directory, symlinked directories, ELOOP bound. Validated against the real OS by
selftest() (same scripted operations through the model and through a real
temporary directory) on every run of a check that uses it.
"""
import errno
import posixpath


class Crash(BaseException):
    """The simulated process was killed (kill -9): process state is lost, completed ops are durable."""


class Pause(BaseException):
    """Raised by the scheduler hook to pre-empt the simulated process (replay scheduler)."""


MUTATING = ("mkdir", "open_w", "write", "unlink", "symlink", "rename")


class FS:
    def __init__(self):
        self.nodes = {"/": ("dir",)}
        self.files = {}  # inode -> bytes; a ("file", inode) node names it, open handles keep it alive
        self._next_ino = 1
        self.cwd = "/"
        self.count = 0  # number of mutating ops performed so far (crash points)
        self.crash_at = None  # index of the mutating op that is NOT completed
        self.torn = 0  # bytes of that op that do reach the disk if it is a write
        self.dead = False
        self.trace = []  # (op, args...) of mutating ops, for evidence / replay
        self.hook = None  # scheduler hook: hook(op, args) called before every op
        self.created = []  # paths of nodes created (for containment checks)

    def clone_state(self):
        return dict(self.nodes)

    def content(self, node):
        return self.files[node[1]]

    # ------------------------------------------------------------------ resolution
    def _abs(self, p):
        p = str(p)
        if not p.startswith("/"):
            p = posixpath.join(self.cwd, p)
        return p

    def resolve(self, path, follow_last=True, _depth=0):
        """Returns (canonical path, node-or-None). Raises OSError like the kernel would."""
        if _depth > 40:
            raise OSError(errno.ELOOP, "Too many levels of symbolic links", path)
        path = self._abs(path)
        comps = [c for c in path.split("/") if c not in ("", ".")]
        cur = "/"
        n = len(comps)
        for i, comp in enumerate(comps):
            last = i == n - 1
            if comp == "..":
                cur = posixpath.dirname(cur) or "/"
                continue
            node_cur = self.nodes.get(cur)
            if node_cur is None:
                raise FileNotFoundError(errno.ENOENT, "No such file or directory", path)
            if node_cur[0] != "dir":
                raise NotADirectoryError(errno.ENOTDIR, "Not a directory", path)
            nxt = posixpath.join(cur, comp)
            node = self.nodes.get(nxt)
            if node is None:
                if last:
                    return (nxt, None)
                raise FileNotFoundError(errno.ENOENT, "No such file or directory", path)
            if node[0] == "link" and (not last or follow_last):
                target = node[1]
                base = target if target.startswith("/") else posixpath.join(cur, target)
                rest = "/".join(comps[i + 1:])
                return self.resolve(posixpath.join(base, rest) if rest else base, follow_last, _depth + 1)
            cur = nxt
        return (cur, self.nodes.get(cur))

    # ------------------------------------------------------------------ single entry point
    def do(self, op, *args):
        if self.dead:
            raise Crash()
        if self.hook is not None:
            self.hook(op, args)
        if op in MUTATING:
            k = self.count
            self.count = k + 1
            if self.crash_at is not None and k == self.crash_at:
                self.dead = True
                if op == "write":
                    handle, data = args
                    t = self.torn
                    if t > 0:
                        self._write(handle, data[:t])
                    self.trace.append(("write(torn)", handle.path, t))
                raise Crash()
            self.trace.append((op,) + tuple(a.path if isinstance(a, Handle) else (a if isinstance(a, str) else "<data>") for a in args))
        return getattr(self, "_" + op)(*args)

    # ------------------------------------------------------------------ primitive ops
    def _stat(self, path):
        """kind of the node the path resolves to (following links) or None."""
        try:
            _p, node = self.resolve(path, True)
        except (FileNotFoundError, NotADirectoryError):
            return None
        except OSError:
            return None
        return node[0] if node is not None else None

    def _lstat(self, path):
        try:
            _p, node = self.resolve(path, False)
        except OSError:
            return None
        return node[0] if node is not None else None

    def _mkdir(self, path):
        p, node = self.resolve(path, False)
        if node is not None:
            raise FileExistsError(errno.EEXIST, "File exists", path)
        parent = self.nodes.get(posixpath.dirname(p) or "/")
        if parent is None:
            raise FileNotFoundError(errno.ENOENT, "No such file or directory", path)
        if parent[0] != "dir":
            raise NotADirectoryError(errno.ENOTDIR, "Not a directory", path)
        self.nodes[p] = ("dir",)
        self.created.append(p)

    def _open_w(self, path):
        p, node = self.resolve(path, True)
        if node is not None and node[0] == "dir":
            raise IsADirectoryError(errno.EISDIR, "Is a directory", path)
        parent = self.nodes.get(posixpath.dirname(p) or "/")
        if parent is None or parent[0] != "dir":
            raise FileNotFoundError(errno.ENOENT, "No such file or directory", path)
        if node is None:
            self.created.append(p)
            ino = self._next_ino
            self._next_ino = ino + 1
            self.nodes[p] = ("file", ino)
        else:
            ino = node[1]  # O_TRUNC on the existing inode
        self.files[ino] = b""
        return Handle(self, p, "w", ino)

    def _write(self, handle, data):
        # the handle refers to the inode, wherever its name was moved meanwhile
        self.files[handle.ino] = self.files[handle.ino] + data
        return len(data)

    def _open_r(self, path):
        p, node = self.resolve(path, True)
        if node is None:
            raise FileNotFoundError(errno.ENOENT, "No such file or directory", path)
        if node[0] == "dir":
            raise IsADirectoryError(errno.EISDIR, "Is a directory", path)
        return Handle(self, p, "r", node[1])

    def _readall(self, handle):
        return self.files[handle.ino]

    def _unlink(self, path):
        p, node = self.resolve(path, False)
        if node is None:
            raise FileNotFoundError(errno.ENOENT, "No such file or directory", path)
        if node[0] == "dir":
            raise IsADirectoryError(errno.EISDIR, "Is a directory", path)
        del self.nodes[p]

    def _symlink(self, target, linkpath):
        p, node = self.resolve(linkpath, False)
        if node is not None:
            raise FileExistsError(errno.EEXIST, "File exists", linkpath)
        parent = self.nodes.get(posixpath.dirname(p) or "/")
        if parent is None or parent[0] != "dir":
            raise FileNotFoundError(errno.ENOENT, "No such file or directory", linkpath)
        self.nodes[p] = ("link", str(target))
        self.created.append(p)

    def _rename(self, src, dst):
        sp, snode = self.resolve(src, False)
        if snode is None:
            raise FileNotFoundError(errno.ENOENT, "No such file or directory", src)
        dp, dnode = self.resolve(dst, False)
        parent = self.nodes.get(posixpath.dirname(dp) or "/")
        if parent is None or parent[0] != "dir":
            raise FileNotFoundError(errno.ENOENT, "No such file or directory", dst)
        if dnode is not None and dnode[0] == "dir":
            raise IsADirectoryError(errno.EISDIR, "Is a directory", dst)
        if snode[0] == "dir":
            raise OSError(errno.EINVAL, "model: directory rename not supported")
        if dnode is None:
            self.created.append(dp)
        del self.nodes[sp]
        self.nodes[dp] = snode

    def _realpath(self, path):
        # os.path.realpath (non-strict): resolve as far as possible, keep the rest
        path = self._abs(path)
        comps = [c for c in path.split("/") if c not in ("", ".")]
        cur = "/"
        i = 0
        depth = 0
        while i < len(comps):
            comp = comps[i]
            i += 1
            if comp == "..":
                cur = posixpath.dirname(cur) or "/"
                continue
            nxt = posixpath.join(cur, comp)
            node = self.nodes.get(nxt)
            if node is not None and node[0] == "link":
                depth += 1
                if depth > 40:
                    return posixpath.join(nxt, *comps[i:]) if comps[i:] else nxt
                target = node[1]
                base = target if target.startswith("/") else posixpath.join(cur, target)
                rest = [c for c in base.split("/") if c not in ("", ".")]
                comps = rest + comps[i:]
                i = 0
                cur = "/"
                continue
            cur = nxt
        return cur

    def _listdir(self, path):
        p, node = self.resolve(path, True)
        if node is None:
            raise FileNotFoundError(errno.ENOENT, "No such file or directory", path)
        if node[0] != "dir":
            raise NotADirectoryError(errno.ENOTDIR, "Not a directory", path)
        pre = p if p.endswith("/") else p + "/"
        return sorted(k[len(pre):] for k in self.nodes if k.startswith(pre) and "/" not in k[len(pre):] and k != p)

    def _readlink(self, path):
        p, node = self.resolve(path, False)
        if node is None or node[0] != "link":
            raise OSError(errno.EINVAL, "Invalid argument", path)
        return node[1]

    def _chdir(self, path):
        p, node = self.resolve(path, True)
        if node is None or node[0] != "dir":
            raise FileNotFoundError(errno.ENOENT, "No such file or directory", path)
        self.cwd = p

    # convenience for harnesses (not an op of the simulated process)
    def read_file(self, path):
        p, node = self.resolve(path, True)
        if node is None or node[0] != "file":
            return None
        return self.files[node[1]]


class Handle:
    """A buffered binary file object, as open(path, 'wb' / 'rb') returns: written data stays in the
    process (lost if the process is killed) until flush() / close() issue the write."""

    def __init__(self, fs, path, mode, ino):
        self.fs = fs
        self.path = path
        self.mode = mode
        self.ino = ino
        self.closed = False
        self._pos = 0
        self._data = None
        self._buf = None

    # file-object protocol used by dds, json and pickle
    def __enter__(self):
        return self

    def __exit__(self, *exc):
        self.close()
        return False

    def write(self, data):
        if self.mode != "w":
            raise OSError("not writable")
        if isinstance(data, (bytearray, memoryview)):
            data = bytes(data)
        self._buf = data if self._buf is None else self._buf + data
        return len(data)

    def flush(self):
        if self._buf is not None:
            data, self._buf = self._buf, None
            self.fs.do("write", self, data)

    def close(self):
        if not self.closed:
            self.closed = True
            self.flush()

    def _load(self):
        if self._data is None:
            self._data = self.fs.do("readall", self)

    def read(self, n=-1):
        self._load()
        if n is None or n < 0:
            out = self._data[self._pos:]
            self._pos = len(self._data)
            return out
        out = self._data[self._pos:self._pos + n]
        self._pos += len(out)
        return out

    def readline(self):
        self._load()
        i = self._data.find(b"\n", self._pos)
        end = len(self._data) if i < 0 else i + 1
        out = self._data[self._pos:end]
        self._pos = end
        return out

    def readinto(self, b):
        data = self.read(len(b))
        b[: len(data)] = data
        return len(data)

class PathFacade:
    def __init__(self, fs):
        self._fs = fs
        self.sep = "/"

    join = staticmethod(posixpath.join)
    split = staticmethod(posixpath.split)
    dirname = staticmethod(posixpath.dirname)
    basename = staticmethod(posixpath.basename)
    isabs = staticmethod(posixpath.isabs)
    normpath = staticmethod(posixpath.normpath)
    splitext = staticmethod(posixpath.splitext)

    def exists(self, p):
        return self._fs.do("stat", p) is not None

    def lexists(self, p):
        return self._fs.do("lstat", p) is not None

    def isdir(self, p):
        return self._fs.do("stat", p) == "dir"

    def isfile(self, p):
        return self._fs.do("stat", p) == "file"

    def islink(self, p):
        return self._fs.do("lstat", p) == "link"

    def realpath(self, p):
        return self._fs.do("realpath", p)

    def abspath(self, p):
        return posixpath.normpath(self._fs._abs(p))

    def relpath(self, path, start=None):
        a = posixpath.normpath(self._fs._abs(path))
        b = posixpath.normpath(self._fs._abs(start if start is not None else self._fs.cwd))
        return posixpath.relpath(a, b)

    def commonpath(self, paths):
        return posixpath.commonpath([posixpath.normpath(self._fs._abs(p)) for p in paths])

    def expanduser(self, p):
        return p


class OsFacade:
    """Stands for the module `os` inside dds.store."""

    sep = "/"
    error = OSError

    def __init__(self, fs):
        self._fs = fs
        self.path = PathFacade(fs)

    def fspath(self, p):
        return str(p)

    def getcwd(self):
        return self._fs.cwd

    def chdir(self, p):
        self._fs.do("chdir", p)

    def mkdir(self, p, mode=0o777):
        self._fs.do("mkdir", p)

    def makedirs(self, name, mode=0o777, exist_ok=False):
        # transcription of CPython's os.makedirs (pure Python there too), over the primitive ops
        head, tail = posixpath.split(name)
        if not tail:
            head, tail = posixpath.split(head)
        if head and tail and not self.path.exists(head):
            try:
                self.makedirs(head, exist_ok=exist_ok)
            except FileExistsError:
                pass
            if tail == ".":
                return
        try:
            self.mkdir(name, mode)
        except OSError:
            if not exist_ok or not self.path.isdir(name):
                raise

    def remove(self, p):
        self._fs.do("unlink", p)

    unlink = remove

    def symlink(self, src, dst):
        self._fs.do("symlink", str(src), dst)

    def rename(self, src, dst):
        self._fs.do("rename", src, dst)

    replace = rename

    def listdir(self, p="."):
        return self._fs.do("listdir", p)

    def readlink(self, p):
        return self._fs.do("readlink", p)

    def getpid(self):
        return 4242


class TextHandle:
    """open(path, 'w' / 'r', encoding=..., newline=None): text layer over a binary handle, POSIX semantics
    (writing translates nothing, reading applies universal newlines unless newline='')."""

    def __init__(self, raw, encoding, newline):
        self.raw = raw
        self.encoding = encoding or "utf-8"
        self.newline = newline

    def __enter__(self):
        return self

    def __exit__(self, *exc):
        self.close()
        return False

    def write(self, s):
        if not isinstance(s, str):
            raise TypeError("write() argument must be str")
        self.raw.write(s.encode(self.encoding))
        return len(s)

    def read(self, n=-1):
        s = self.raw.read().decode(self.encoding)
        if self.newline is None:
            s = s.replace("\r\n", "\n").replace("\r", "\n")
        return s

    def flush(self):
        self.raw.flush()

    def close(self):
        self.raw.close()


def make_open(fs):
    def _open(path, mode="r", buffering=-1, encoding=None, errors=None, newline=None, *a, **kw):
        path = str(path)
        if "w" in mode or "x" in mode:
            raw = fs.do("open_w", path)
        else:
            raw = fs.do("open_r", path)
        if "b" in mode:
            return raw
        return TextHandle(raw, encoding, newline)

    return _open


def install(fs):
    import dds.store as store
    import dds.codecs.builtins as builtins_codecs

    store.os = OsFacade(fs)
    store.open = make_open(fs)
    builtins_codecs.open = make_open(fs)
    return fs


def uninstall():
    import os
    import dds.store as store
    import dds.codecs.builtins as builtins_codecs

    store.os = os
    for m in (store, builtins_codecs):
        if "open" in m.__dict__:
            del m.__dict__["open"]


STUBBED_NAMES = {"os": ["dds.store"], "open()": ["dds.store", "dds.codecs.builtins"], "tempfile": ["dds._api", "dds.codecs.databricks"], "shutil": [], "subprocess": [], "io": []}


# ---------------------------------------------------------------------------
# differential self-test against the real OS


def _script_ops():
    """Scripted op sequences: (name, args). Paths are relative to a root directory."""
    S = []
    S.append([("makedirs", "a/b/c"), ("exists", "a/b"), ("isdir", "a/b/c"), ("makedirs", "a/b/c"), ("makedirs_ok", "a/b/c"), ("write", "a/b/c/f", b"hello"), ("read", "a/b/c/f"), ("exists", "a/b/c/f"), ("isdir", "a/b/c/f"), ("makedirs", "a/b/c/f/x")])
    S.append([("mkdir", "d"), ("write", "d/blob", b"x"), ("symlink", "d/blob", "lnk"), ("exists", "lnk"), ("realpath", "lnk"), ("read", "lnk"), ("remove", "d/blob"), ("exists", "lnk"), ("lexists", "lnk"), ("realpath", "lnk"), ("remove", "lnk"), ("exists", "lnk"), ("remove", "lnk")])
    S.append([("mkdir", "data"), ("mkdir", "int"), ("write", "int/k1", b"v1"), ("symlink_abs", "int/k1", "data/p"), ("realpath", "data/p"), ("symlink_abs", "int/k2", "data/p"), ("remove", "data/p"), ("symlink_abs", "int/k2", "data/p"), ("exists", "data/p"), ("realpath", "data/p"), ("read", "data/p")])
    S.append([("mkdir", "r"), ("mkdir", "r/sub"), ("symlink", "r/sub", "ls"), ("write", "ls/f", b"abc"), ("read", "r/sub/f"), ("realpath", "ls/f"), ("makedirs", "ls/x/y"), ("isdir", "r/sub/x/y"), ("symlink", "../r", "r/sub/up"), ("exists", "r/sub/up/sub"), ("realpath", "r/sub/up/sub/f")])
    S.append([("write", "f", b"one"), ("write", "f", b"2"), ("read", "f"), ("rename", "f", "g"), ("exists", "f"), ("read", "g"), ("write", "h", b"zz"), ("rename", "g", "h"), ("read", "h"), ("symlink", "h", "l1"), ("symlink", "l1", "l2"), ("read", "l2"), ("realpath", "l2"), ("symlink", "loop", "loop"), ("exists", "loop"), ("read", "loop")])
    S.append([("symlink", "rel/target", "dangling"), ("exists", "dangling"), ("mkdir", "rel"), ("write", "rel/target", b"late"), ("exists", "dangling"), ("read", "dangling"), ("write", "nodir/x", b"1"), ("symlink", "x", "nodir/l"), ("mkdir", "nodir/sub"), ("exists", "a/../rel"), ("realpath", "rel/../rel/./target"), ("makedirs", "m/./n"), ("isdir", "m/n"), ("makedirs", "t/"), ("isdir", "t")])
    return S


def _apply_script(osm, openf, root, script):
    out = []
    j = posixpath.join
    for step in script:
        name = step[0]
        try:
            if name == "makedirs":
                r = osm.makedirs(j(root, step[1]))
            elif name == "makedirs_ok":
                r = osm.makedirs(j(root, step[1]), exist_ok=True)
            elif name == "mkdir":
                r = osm.mkdir(j(root, step[1]))
            elif name == "exists":
                r = osm.path.exists(j(root, step[1]))
            elif name == "lexists":
                r = osm.path.lexists(j(root, step[1]))
            elif name == "isdir":
                r = osm.path.isdir(j(root, step[1]))
            elif name == "realpath":
                r = osm.path.realpath(j(root, step[1]))
                r = posixpath.relpath(r, root)
            elif name == "write":
                with openf(j(root, step[1]), "wb") as f:
                    f.write(step[2])
                r = None
            elif name == "read":
                with openf(j(root, step[1]), "rb") as f:
                    r = f.read()
            elif name == "remove":
                r = osm.remove(j(root, step[1]))
            elif name == "symlink":
                r = osm.symlink(step[1], j(root, step[2]))
            elif name == "symlink_abs":
                r = osm.symlink(j(root, step[1]), j(root, step[2]))
            elif name == "rename":
                r = osm.rename(j(root, step[1]), j(root, step[2]))
            else:
                raise AssertionError(name)
            out.append(("ok", r))
        except OSError as e:
            out.append(("err", type(e).__name__))
    return out


def selftest():
    """Returns None if the model agrees with the real OS on every scripted sequence, else a message."""
    import os
    import shutil
    import tempfile

    for si, script in enumerate(_script_ops()):
        real_root = os.path.realpath(tempfile.mkdtemp(prefix="verif-fs-"))
        try:
            real = _apply_script(os, open, real_root, script)
        finally:
            shutil.rmtree(real_root, ignore_errors=True)
        fs = FS()
        fs.nodes["/root"] = ("dir",)
        model = _apply_script(OsFacade(fs), make_open(fs), "/root", script)
        if real != model:
            for k, (a, b) in enumerate(zip(real, model)):
                if a != b:
                    return "fs model disagrees with the OS in script %d at step %d %r: real %r, model %r" % (si, k, script[k][:2], a, b)
            return "fs model disagrees with the OS in script %d" % si
    return None


# ---------------------------------------------------------------------------
# The same facades over the real OS (used by the real-OS replay of interleavings: identical
# operation granularity by construction)


class RealHandle:
    def __init__(self, fs, path, mode, f):
        self.fs, self.path, self.mode, self.f = fs, path, mode, f
        self._data = None
        self._pos = 0

    def __enter__(self):
        return self

    def __exit__(self, *exc):
        self.close()
        return False

    _buf = None
    closed = False

    def write(self, data):
        data = bytes(data)
        self._buf = data if self._buf is None else self._buf + data
        return len(data)

    def flush(self):
        if self._buf is not None:
            data, self._buf = self._buf, None
            self.fs.do("write", self, data)

    def close(self):
        if not self.closed:
            self.closed = True
            self.flush()
            self.f.close()

    def _load(self):
        if self._data is None:
            self._data = self.fs.do("readall", self)

    read = Handle.read
    readline = Handle.readline
    readinto = Handle.readinto


class RealFS:
    """do(op, ...) against the real operating system; `gate(op)` is called before every step."""

    def __init__(self, gate=None):
        self.gate = gate
        self.cwd = None

    def _abs(self, p):
        import os

        return os.path.abspath(p)

    split_writes = True

    def do(self, op, *args):
        if op == "write" and self.split_writes:
            handle, data = args
            half = len(data) // 2
            return self._step("write", handle, data[:half]) + self._step("write", handle, data[half:])
        return self._step(op, *args)

    def _step(self, op, *args):
        if self.gate is not None:
            self.gate(op, args)
        return getattr(self, "_" + op)(*args)

    def _stat(self, p):
        import os

        if os.path.isdir(p):
            return "dir"
        if os.path.isfile(p):
            return "file"
        return "other" if os.path.exists(p) else None

    def _lstat(self, p):
        import os

        if os.path.islink(p):
            return "link"
        return self._stat(p) if os.path.lexists(p) else None

    def _mkdir(self, p):
        import os

        os.mkdir(p)

    def _open_w(self, p):
        return RealHandle(self, p, "w", open(p, "wb"))

    def _write(self, handle, data):
        n = handle.f.write(data)
        handle.f.flush()
        return n

    def _open_r(self, p):
        return RealHandle(self, p, "r", open(p, "rb"))

    def _readall(self, handle):
        return handle.f.read()

    def _unlink(self, p):
        import os

        os.remove(p)

    def _symlink(self, target, linkpath):
        import os

        os.symlink(target, linkpath)

    def _rename(self, a, b):
        import os

        os.replace(a, b)

    def _realpath(self, p):
        import os

        return os.path.realpath(p)

    def _listdir(self, p):
        import os

        return sorted(os.listdir(p))

    def _readlink(self, p):
        import os

        return os.readlink(p)

    def _chdir(self, p):
        import os

        os.chdir(p)
