"""
Replay scheduler for interleavings (DESIGN 3.5).

Simulated processes live in one interpreter and one thread (CrossHair traces one thread). A process is
a deterministic function of the results of its file-system operations, so it can be re-executed from
scratch: step(p) runs p's body with FS.do answering the first len(p.log) operations from the log,
performing the next one live, logging it, and raising Pause at the following one. The schedule is
(first, s1 < s2 < ...): switch points in the global count of live operations.

A write is two scheduling steps (first half, second half), so that another process can run while a file
is partially written.
"""
from . import fsmodel
from .fsmodel import Pause


class Proc:
    def __init__(self, pid, body):
        self.pid = pid
        self.body = body
        self.log = []  # ("ok", result) | ("err", exception) per operation performed so far
        self.done = False
        self.result = None
        self.exec_log = None


class SchedFS(fsmodel.FS):
    def __init__(self):
        fsmodel.FS.__init__(self)
        self.cur = None  # current Proc
        self.cursor = 0
        self.limit = None  # the current process is pre-empted when the global step count reaches it
        self.steps = 0  # global number of live operations

    def getpid(self):
        return self.cur.pid if self.cur is not None else 1

    def do(self, op, *args):
        p = self.cur
        if p is None:
            return fsmodel.FS.do(self, op, *args)
        if op == "write":
            handle, data = args
            half = len(data) // 2
            n1 = self._sched_op("write", handle, data[:half])
            n2 = self._sched_op("write", handle, data[half:])
            return n1 + n2
        return self._sched_op(op, *args)

    def _sched_op(self, op, *args):
        p = self.cur
        i = self.cursor
        if i < len(p.log):
            self.cursor = i + 1
            kind, val = p.log[i]
            if kind == "err":
                raise val
            if isinstance(val, fsmodel.Handle):
                return fsmodel.Handle(self, val.path, val.mode, val.ino)  # handles carry a read position / buffer: never reuse
            return val
        if self.limit is not None and self.steps >= self.limit:
            raise Pause()
        self.cursor = i + 1
        self.steps += 1
        try:
            val = fsmodel.FS.do(self, op, *args)
        except OSError as e:
            p.log.append(("err", e))
            raise
        p.log.append(("ok", val))
        return val


class Scheduler:
    def __init__(self, fs, procs):
        self.fs = fs
        self.procs = procs

    def resume(self, p, limit):
        """Runs p until the global step count reaches `limit` (None: to completion). A process that was
        pre-empted earlier is re-executed from scratch with its logged operation results replayed, so a
        schedule with k switch points costs at most k + 2 executions of each body."""
        if p.done:
            return
        fs = self.fs
        fs.cur = p
        fs.cursor = 0
        fs.limit = limit
        try:
            res = p.body(p)
            p.done = True
            p.result = res
        except Pause:
            pass
        finally:
            fs.cur = None
            fs.limit = None

    def run(self, first, switches):
        """Start with procs[first]; at each switch point (global count of live operations) rotate to the
        next process; after the last switch point run the current one to completion, then the others."""
        n = len(self.procs)
        cur = first
        k = 0
        guard = 0
        while not all(p.done for p in self.procs):
            guard += 1
            if guard > 200:
                raise AssertionError("scheduler did not terminate")
            limit = switches[k] if k < len(switches) else None
            if limit is not None and self.fs.steps >= limit:
                k += 1
                cur = (cur + 1) % n
                continue
            p = self.procs[cur]
            if p.done:
                cur = (cur + 1) % n
                continue
            self.resume(p, limit)
        return [p.result for p in self.procs]


def install(fs):
    """fsmodel.install + per-process pid."""
    fsmodel.install(fs)
    import dds.store as store

    store.os.getpid = fs.getpid
    return fs
