"""
Ideal-hash model (DESIGN 3.1) and struct model (DESIGN 3.2).

install() replaces the names `hashlib` and `struct` inside dds.fun_args (the only dds
module that uses them - enforced by the preflight) by the objects below.

Interning hash: a per-path table of (preimage, token); a new preimage is compared with every
earlier one - on symbolic data that comparison is a solver fork - and receives the earlier token
or a fresh one, "%064x" % (1 << k). Two digests are equal iff their preimages are equal, so a
collision found is a collision of dds's *encoding* (hence one under SHA-256 too) and the absence of
one within the bound means a real one needs a SHA-256 collision. Tokens are single bits, so the XOR
combiner of dds_hash_commut behaves like GF(2)-independent digests.
"""
import struct as _real_struct


class Packed:
    """Abstract result of struct.pack(fmt, value) for the two formats dds uses."""

    __slots__ = ("fmt", "value")

    def __init__(self, fmt, value):
        self.fmt = fmt
        self.value = value

    def __repr__(self):
        return "Packed(%r, %r)" % (self.fmt, self.value)


class StructModel:
    error = _real_struct.error

    @staticmethod
    def pack(fmt, *vals):
        if fmt == "!l" and len(vals) == 1:
            v = vals[0]
            if not isinstance(v, int):
                raise _real_struct.error("required argument is not an integer")
            if v < -2147483648 or v > 2147483647:
                raise _real_struct.error("'l' format requires -2147483648 <= number <= 2147483647")
            return Packed("!l", v)
        if fmt == "!q" and len(vals) == 1:
            v = vals[0]
            if not isinstance(v, int):
                raise _real_struct.error("required argument is not an integer")
            if v < -(2 ** 63) or v > 2 ** 63 - 1:
                raise _real_struct.error("'q' format requires -9223372036854775808 <= number <= 9223372036854775807")
            return Packed("!q", v)
        if fmt == "!d" and len(vals) == 1:
            v = vals[0]
            if not isinstance(v, (int, float)):
                raise _real_struct.error("required argument is not a float")
            return Packed("!d", v)
        # anything else: defer to the real module (concrete arguments only)
        return _real_struct.pack(fmt, *vals)

    unpack = staticmethod(_real_struct.unpack)
    calcsize = staticmethod(_real_struct.calcsize)


def _signed_be(b, n):
    """big-endian two's complement value of the first n bytes of b (linear arithmetic, solver friendly)."""
    first = b[0]
    acc = first - 256 if first >= 128 else first
    for i in range(1, n):
        acc = acc * 256 + b[i]
    return acc


def _is_concrete_number(v):
    # type() is faked by CrossHair proxies: look at the real type with tracing off
    try:
        from crosshair.tracers import NoTracing
    except ImportError:
        return type(v) in (int, float, bool)
    with NoTracing():
        return type(v) in (int, float, bool)


def preimage_equal(p, q):
    """Equality of two hash preimages: bytes (possibly symbolic) or Packed."""
    pp, qp = isinstance(p, Packed), isinstance(q, Packed)
    if pp and qp:
        if p.fmt != q.fmt:
            # "!l" (4 bytes) / "!q" (8 bytes) / "!d" (8 bytes)
            if {p.fmt, q.fmt} == {"!q", "!d"}:
                if _is_concrete_number(p.value) and _is_concrete_number(q.value):
                    return _real_struct.pack(p.fmt, p.value) == _real_struct.pack(q.fmt, q.value)
                return False  # bit-level float/int coincidence: outside the model (stated)
            return False
        if p.fmt == "!d":
            a, b = p.value, q.value
            if _is_concrete_number(a) and _is_concrete_number(b):
                return _real_struct.pack("!d", a) == _real_struct.pack("!d", b)
            return a == b
        return p.value == q.value
    if pp or qp:
        pk, by = (p, q) if pp else (q, p)
        n = 4 if pk.fmt == "!l" else 8
        if len(by) != n:
            return False
        if pk.fmt == "!d":
            if _is_concrete_number(pk.value) and type(by) is bytes:
                return _real_struct.pack("!d", pk.value) == by
            return False  # float vs 8-byte string: decided by a concrete witness query only (stated)
        return _signed_be(by, n) == pk.value
    return p == q


class _Digest:
    def __init__(self, table, domain, data=None):
        self._table = table
        self._domain = domain
        self._parts = []
        if data is not None:
            self._parts.append(data)

    def update(self, data):
        self._parts.append(data)

    def _preimage(self):
        if len(self._parts) == 1:
            return self._parts[0]
        out = b""
        for p in self._parts:
            if isinstance(p, Packed):
                raise TypeError("model: Packed in a multi-part preimage")
            out = out + p
        return out

    def hexdigest(self):
        return self._table.intern(self._domain, self._preimage())

    def digest(self):
        return bytes.fromhex(self.hexdigest())


class HashModel:
    """Stands for the module `hashlib`."""

    def __init__(self):
        self.entries = []  # (domain, preimage, token)

    def reset(self):
        del self.entries[:]

    def intern(self, domain, pre):
        for (d, q, tok) in self.entries:
            if d == domain and preimage_equal(pre, q):
                return tok
        tok = "%064x" % (1 << len(self.entries))
        self.entries.append((domain, pre, tok))
        return tok

    def preimage_of(self, token):
        for (d, q, tok) in self.entries:
            if tok == token:
                return q
        return None

    def __getattr__(self, name):
        # hashlib.sha256 / md5 / ...: every constructor interns in its own domain
        if name.startswith("_"):
            raise AttributeError(name)

        def ctor(data=None, **kw):
            return _Digest(self, name, data)

        return ctor

    def new(self, name, data=None, **kw):
        return _Digest(self, name, data)


MODEL = HashModel()
STRUCT = StructModel()


def install():
    import dds.fun_args as fa

    fa.hashlib = MODEL
    fa.struct = STRUCT
    MODEL.reset()
    return MODEL


STUBBED_NAMES = {"hashlib": ["dds.fun_args"], "struct": ["dds.fun_args"]}
