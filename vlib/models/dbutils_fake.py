"""In-process fake of the Databricks `dbutils.fs` API over the file-system model (DESIGN 3.6).
dbfs:/x -> /dbfs/x in the model; file:/x, file:///x -> /x. Errors are plain Exceptions, like the Java exceptions the
real object raises. Its fidelity to Databricks cannot be validated offline (stated in C19's evidence)."""
import posixpath


class FakeFS:
    def __init__(self, fs):
        self._fs = fs
        self.calls = []

    def _map(self, uri):
        uri = str(uri)
        if uri.startswith("file:"):
            p = uri[len("file:"):]
            while p.startswith("//"):
                p = p[1:]
            return p
        if uri.startswith("dbfs:"):
            p = uri[len("dbfs:"):]
            return "/dbfs/" + p.lstrip("/")
        return "/dbfs/" + uri.lstrip("/")

    def _mkparents(self, path):
        parent = posixpath.dirname(path)
        todo = []
        while parent not in self._fs.nodes:
            todo.append(parent)
            parent = posixpath.dirname(parent)
        for p in reversed(todo):
            self._fs.nodes[p] = ("dir",)

    def _write(self, path, data):
        self._mkparents(path)
        hnd = self._fs._open_w(path)
        self._fs._write(hnd, data)

    def cp(self, src, dst, recurse=False):
        self.calls.append(("cp", str(src), str(dst)))
        s, d = self._map(src), self._map(dst)
        node = self._fs.nodes.get(s)
        if node is None:
            raise Exception("java.io.FileNotFoundException: " + str(src))
        if node[0] == "dir":
            if not recurse:
                raise Exception("java.io.IOException: cannot copy a directory without recurse")
            for p in sorted(k for k in self._fs.nodes if k.startswith(s + "/")):
                n = self._fs.nodes[p]
                if n[0] == "file":
                    self._write(d + p[len(s):], self._fs.files[n[1]])
            return True
        self._write(d, self._fs.files[node[1]])
        return True

    def head(self, path, max_bytes=65536):
        self.calls.append(("head", str(path)))
        p = self._map(path)
        node = self._fs.nodes.get(p)
        if node is None or node[0] != "file":
            raise Exception("java.io.FileNotFoundException: " + str(path))
        return self._fs.files[node[1]][:max_bytes].decode("utf-8", "replace")

    def put(self, path, contents, overwrite=False):
        self.calls.append(("put", str(path)))
        p = self._map(path)
        if p in self._fs.nodes and not overwrite:
            raise Exception("java.io.IOException: file exists " + str(path))
        self._write(p, contents.encode("utf-8"))
        return True

    def rm(self, path, recurse=False):
        self.calls.append(("rm", str(path)))
        p = self._map(path)
        for k in [k for k in self._fs.nodes if k == p or k.startswith(p + "/")]:
            del self._fs.nodes[k]
        return True

    def ls(self, path):
        p = self._map(path)
        return sorted(k for k in self._fs.nodes if posixpath.dirname(k) == p)


class FakeDbutils:
    def __init__(self, fs):
        self.fs = FakeFS(fs)


class _TmpDir:
    n = [0]

    def __init__(self, fs):
        self._fs = fs

    def __enter__(self):
        _TmpDir.n[0] += 1
        self.name = "/tmp/td%d" % _TmpDir.n[0]
        for p in ("/tmp", self.name):
            self._fs.nodes.setdefault(p, ("dir",))
        return self.name

    def __exit__(self, *exc):
        for k in [k for k in self._fs.nodes if k == self.name or k.startswith(self.name + "/")]:
            del self._fs.nodes[k]
        return False


class FakeTempfile:
    """Stands for the module `tempfile` inside dds.codecs.databricks."""

    def __init__(self, fs):
        self._fs = fs

    def TemporaryDirectory(self, *a, **kw):
        return _TmpDir(self._fs)

    def gettempdir(self):
        return "/tmp"


def install(fs):
    import dds.codecs.databricks as db

    db.tempfile = FakeTempfile(fs)
    return FakeDbutils(fs)
