"""A template program loaded twice (real dds / plain twin) plus the dds process state around it."""
from collections import OrderedDict

from vlib import h, tick, tpl as tplmod
from vlib.models import hashmodel

import dds
import dds._api as api
import dds.store as dstore
import dds._lru_store as lru
from dds.structures import DDSException


class RecordingStore(dstore.Store):
    """Wraps a store and records the path -> signature maps handed to sync_paths (C02 / C03 observation point)."""

    def __init__(self, inner):
        self.inner = inner
        self.synced = []

    def has_blob(self, key):
        return self.inner.has_blob(key)

    def fetch_blob(self, key):
        return self.inner.fetch_blob(key)

    def store_blob(self, key, blob, codec=None):
        return self.inner.store_blob(key, blob, codec)

    def sync_paths(self, paths):
        self.synced.append(OrderedDict(paths))
        return self.inner.sync_paths(paths)

    def fetch_paths(self, paths):
        return self.inner.fetch_paths(paths)

    def codec_registry(self):
        return self.inner.codec_registry()


def make_store(kind):
    if kind == "memory":
        return dstore.MemoryStore()
    if kind == "noop":
        return dstore.NoOpStore()
    if kind == "lru":
        return lru.LRUCacheStore(dstore.MemoryStore(), 1)
    raise KeyError(kind)


class World:
    def __init__(self, template, store_kind="memory", variants=None):
        self.t = template
        self.real = tplmod.Instance(template, False).build(variants)
        self.twin = tplmod.Instance(template, True).build(variants)
        self.store = RecordingStore(make_store(store_kind))
        self.start_process()

    def start_process(self):
        """A fresh OS process over the same persistent store."""
        h.fresh_process()
        for p in self.t.accepted:
            dds.accept_module(p)
        api._store_var = self.store
        self.real.activate()

    def set_variants(self, variants):
        for m, v in variants.items():
            if self.real.variant.get(m) != v:
                self.real.load_module(m, v)
                self.twin.load_module(m, v)
        self.real.activate()

    def set_leaf(self, mod, var, value):
        self.real.set_leaf(mod, var, value)
        self.twin.set_leaf(mod, var, value)

    def run_real(self, style="call", args=(), kwargs=None, entry=None, path=None, **evalkw):
        kwargs = kwargs or {}
        mod, fn = entry or self.t.entry
        f = self.real.mods[mod].__dict__[fn]
        tick.reset()
        try:
            if style == "load":
                return ("ok", dds.load(path), [])
            if style == "call":
                v = f(*args, **kwargs)
            elif style == "eval":
                v = dds.eval(f, *args, **dict(kwargs, **evalkw))
            elif style == "keep":
                v = dds.keep(path, f, *args, **kwargs)
            else:
                raise KeyError(style)
            return ("ok", v, list(tick.LOG))
        except DDSException as e:
            return ("dds", e.error_code, str(e)[:200])
        finally:
            api._eval_ctx = None

    def run_plain(self, args=(), kwargs=None, entry=None, path=None, style=None):
        kwargs = kwargs or {}
        if style == "load":
            return ("ok", self.twin.plain.load(path), [])
        mod, fn = entry or self.t.entry
        f = self.twin.mods[mod].__dict__[fn]
        tick.reset()
        v = f(*args, **kwargs)
        if path is not None:
            self.twin.plain.produced[str(path)] = v
        return ("ok", v, list(tick.LOG))

    def last_sigs(self):
        return self.store.synced[-1] if self.store.synced else None
