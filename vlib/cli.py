import argparse
import os
import sys

ROOT = os.path.dirname(os.path.dirname(os.path.abspath(__file__)))
sys.path.insert(0, ROOT)


def main():
    ap = argparse.ArgumentParser()
    ap.add_argument("prop")
    ap.add_argument("--tier", default=os.environ.get("VERIF_TIER", "quick"), choices=["quick", "thorough"])
    ap.add_argument("--only", nargs="*")
    ap.add_argument("--jobs", type=int)
    ap.add_argument("-q", action="store_true")
    a = ap.parse_args()
    from vlib import driver

    seed = int(os.environ.get("VERIF_SEED", "0") or 0)
    rc = driver.run_property(a.prop, a.tier, seed=seed, only=a.only, jobs=a.jobs, verbose=not a.q)
    sys.exit(rc)


if __name__ == "__main__":
    main()
