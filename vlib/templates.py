"""Template corpus (DESIGN 4.2). Each template: modules with variants, leaves, entry, accepted packages."""
from collections import OrderedDict

from vlib.tpl import Template

HEAD = "import dds\nfrom vlib import tick\n"

T = OrderedDict()


def _t(name, modules, leaves, entry, kept, accepted=("tq",), notes=""):
    T[name] = Template(name, OrderedDict(modules), leaves, entry, list(accepted), kept, notes)


PKG = ("tq", {"a": "# package tq\n"})

# ---------------------------------------------------------------- T1: data function -> helper -> tracked variable
_T1 = '''
G = 0
H = 0


def helper():
    tick.hit("helper")
    return ("h", G)


@dds.data_function("/t1/f")
def f():
    tick.hit("f")
    return ("f", helper())


def unrelated():
    return ("u", H)
'''
_t(
    "T1",
    [PKG, ("tq.m1", {
        "a": HEAD + _T1,
        "b": HEAD + _T1.replace('return ("h", G)', 'return ("h2", G)'),  # edit of a transitive callee body
        "c": HEAD + "\n\ndef added_before():\n    return 1\n" + _T1.replace('return ("u", H)', 'return ("u2", H)') + "\n\ndef added_after():\n    return 2\n",  # unrelated edits around
        "d": HEAD + _T1.replace('    tick.hit("f")\n    return ("f", helper())', '    tick.hit("f")\n    # comment inside the body\n    return ("f", helper())'),  # own text
    })],
    leaves=[("tq.m1", "G", "int", True), ("tq.m1", "H", "int", False)],
    entry=("tq.m1", "f"),
    kept=["/t1/f"],
)

# ---------------------------------------------------------------- T3: keeps with constant / default / keyword arguments;  T4: run-time argument
_T3 = '''
G = 0


def g(x, y=5):
    tick.hit("g")
    return ("g", x, y, G)


def g0(x=0):
    tick.hit("g0")
    return ("g0", x, G)


def root(n):
    a = dds.keep("/t3/a", g, 1)
    b = dds.keep("/t3/b", g, 2, y=7)
    return (a, b)


def root0():
    return dds.keep("/t3/z", g0)
'''
_t(
    "T3",
    [PKG, ("tq.m1", {
        "a": HEAD + _T3,
        "b": HEAD + _T3.replace('dds.keep("/t3/a", g, 1)', 'dds.keep("/t3/a", g, 3)'),  # literal argument edited
        "c": HEAD + _T3.replace('def g(x, y=5):', 'def g(x, y=6):'),  # default edited
        "d": HEAD + _T3.replace('dds.keep("/t3/b", g, 2, y=7)', 'dds.keep("/t3/b", g, 2, y=8)'),  # keyword argument edited
    })],
    leaves=[("tq.m1", "G", "int", True)],
    entry=("tq.m1", "root"),
    kept=["/t3/a", "/t3/b"],
)
_T4 = '''
G = 0


def g(x, y=5):
    tick.hit("g")
    return ("g", x, y, G)


def root(n):
    z = (n, 1)
    c = dds.keep("/t4/c", g, z)
    return ("root", c)
'''
_t(
    "T4",
    [PKG, ("tq.m1", {"a": HEAD + _T4, "b": HEAD + _T4.replace("z = (n, 1)", "z = (n, 2)")})],
    leaves=[("tq.m1", "G", "int", True)],
    entry=("tq.m1", "root"),
    kept=["/t4/c"],
)

# ---------------------------------------------------------------- T5: class instantiated by name, variables read in two methods
_T5 = '''
K1 = 0
K2 = 0


class C:
    def __init__(self):
        self.k = K1

    def val(self):
        tick.hit("C.val")
        return ("c", self.k, K2)


@dds.data_function("/t5/f")
def f():
    tick.hit("f")
    c = C()
    return ("f", c.val())
'''
_t(
    "T5",
    [PKG, ("tq.m1", {
        "a": HEAD + _T5,
        "b": HEAD + _T5.replace('return ("c", self.k, K2)', 'return ("c2", self.k, K2)'),
    })],
    leaves=[("tq.m1", "K1", "int", True), ("tq.m1", "K2", "int", True)],
    entry=("tq.m1", "f"),
    kept=["/t5/f"],
)

# ---------------------------------------------------------------- T6: import aliases across modules, non-accepted module
_T6_M2 = '''
G2 = 0


def helper():
    tick.hit("helper")
    return ("h", G2)


def other():
    tick.hit("other")
    return ("o", G2)
'''
_T6_X = '''
X = 0


def ext():
    return ("x", X)
'''
_T6_M1 = '''
from tq.m2 import helper as hp
import tq.m2 as mm
from tx.lib import ext


@dds.data_function("/t6/inner")
def inner():
    tick.hit("inner")
    return ("i", hp())


@dds.data_function("/t6/f")
def f():
    tick.hit("f")
    return ("f", inner(), mm.other(), ext())
'''
_t(
    "T6",
    [PKG, ("tx", {"a": "# non-accepted package\n"}), ("tx.lib", {"a": HEAD + _T6_X, "b": HEAD + _T6_X.replace('return ("x", X)', 'return ("x2", X)')}),
     ("tq.m2", {"a": HEAD + _T6_M2, "b": HEAD + _T6_M2.replace('return ("o", G2)', 'return ("o2", G2)')}),
     ("tq.m1", {"a": HEAD + _T6_M1})],
    leaves=[("tq.m2", "G2", "int", True), ("tx.lib", "X", "int", False)],
    entry=("tq.m1", "f"),
    kept=["/t6/inner", "/t6/f"],
)

# ---------------------------------------------------------------- T7: higher-order reference
_T7 = '''
G = 0


def leaf():
    tick.hit("leaf")
    return ("l", G)


def apply(fn):
    return fn()


@dds.data_function("/t7/f")
def f():
    tick.hit("f")
    return ("f", apply(leaf))
'''
_t(
    "T7",
    [PKG, ("tq.m1", {"a": HEAD + _T7, "b": HEAD + _T7.replace('return ("l", G)', 'return ("l2", G)')})],
    leaves=[("tq.m1", "G", "int", True)],
    entry=("tq.m1", "f"),
    kept=["/t7/f"],
)

# ---------------------------------------------------------------- T8: the same code in two accepted modules (copy), one kept function with a
# tracked variable, one without
_T8 = '''
RATE = 0


@dds.data_function("/t8/base")
def base():
    tick.hit("base")
    return ("b", 1)


@dds.data_function("/t8/scaled")
def scaled():
    tick.hit("scaled")
    return ("s", base(), RATE)
'''
_t(
    "T8",
    [PKG, ("tq.m1", {"a": HEAD + _T8}), ("tq.m3", {"a": HEAD + _T8})],
    leaves=[("tq.m1", "RATE", "int", True), ("tq.m3", "RATE", "int", True)],
    entry=("tq.m1", "scaled"),
    kept=["/t8/base", "/t8/scaled"],
)


# ---------------------------------------------------------------- name-clash module (C03): another program of the same process that uses the
# template's variable names for functions and its function names for variables


def clash_source(t):
    import re

    fun_names, var_names = [], []
    for (_mod, var, _typ, _cone) in t.leaves:
        if var not in fun_names:
            fun_names.append(var)
    for modname, variants in t.modules.items():
        for m in re.finditer(r"^def (\w+)\(", variants["a"], re.M):
            if m.group(1) not in var_names and m.group(1) not in fun_names:
                var_names.append(m.group(1))
    src = HEAD + "\n"
    for i, v in enumerate(var_names):
        src += "%s = %d\n" % (v, 100 + i)
    for fn in fun_names:
        src += "\n\ndef %s():\n    return (\"clash\", %r)\n" % (fn, fn)
    body = ", ".join(["%s()" % fn for fn in fun_names] + var_names)
    src += "\n\n@dds.data_function(\"/clash/p\")\ndef clash_p():\n    return (%s,)\n" % body
    return src


for _name, _tpl in list(T.items()):
    _tpl.modules["tq.zclash"] = {"a": clash_source(_tpl)}

# ---------------------------------------------------------------- T14: package boundary. ta (NOT accepted) > ta.inner (accepted) > ta.inner.leaf ;
# ta.outer (not accepted); tq2 (accepted; its name extends the name of tq); tx.lib defines a data function in a non-accepted module
_T14_LEAF = '''
V = 0
U = 0


def compute():
    tick.hit("compute")
    return ("c", V)


def other():
    tick.hit("other")
    return ("o", U)


F = 0


def via_facade():
    # only reached as ta.outer.via_facade(): re-exported by a NON-accepted module, defined here in an accepted one
    tick.hit("via_facade")
    return ("vf", F)
'''
_T14_DEEP = '''
D = 0


def deep():
    tick.hit("deep")
    return ("d", D)


def dp():
    # never called: tq.m1 imports `deep as dp`, the local alias coincides with the name of this other function
    tick.hit("decoy")
    return ("decoy", 1)
'''
_T14_OUTER = '''
from ta.inner.leaf import via_facade

Z = 0


def ext():
    return ("z", Z)
'''
_T14_HELP = '''
W = 0


def h():
    tick.hit("h")
    return ("w", W)
'''
_T14_XLIB = '''
@dds.data_function("/t14/x")
def xf():
    tick.hit("xf")
    return ("xf", 1)
'''
_T14_M1 = '''
import ta.inner.leaf
from ta.inner import leaf as lf
from ta.inner.sub.deeper.deepest import deep as dp
import ta.outer
import tq2.helpers as hp


@dds.data_function("/t14/g")
def g():
    tick.hit("g")
    return ("g", lf.other(), dp())


@dds.data_function("/t14/f")
def f():
    tick.hit("f")
    return ("f", ta.inner.leaf.compute(), g(), hp.h(), ta.outer.ext(), ta.outer.via_facade())
'''
_t(
    "T14",
    [PKG, ("tq2", {"a": "# accepted package whose name extends 'tq'\\n"}), ("tq2.helpers", {"a": HEAD + _T14_HELP, "b": HEAD + _T14_HELP.replace('("w", W)', '("w2", W)')}),
     ("ta", {"a": "# NOT accepted\\n"}), ("ta.inner", {"a": "# accepted sub-package of a non-accepted package\\n"}),
     ("ta.inner.leaf", {"a": HEAD + _T14_LEAF, "b": HEAD + _T14_LEAF.replace('("c", V)', '("c2", V)')}),
     ("ta.inner.sub", {"a": "#\\n"}), ("ta.inner.sub.deeper", {"a": "#\\n"}),
     ("ta.inner.sub.deeper.deepest", {"a": HEAD + _T14_DEEP, "b": HEAD + _T14_DEEP.replace('("d", D)', '("d2", D)')}),
     ("ta.outer", {"a": HEAD + _T14_OUTER, "b": HEAD + _T14_OUTER.replace('("z", Z)', '("z2", Z)')}),
     ("tx", {"a": "#\\n"}), ("tx.lib", {"a": HEAD + _T14_XLIB}),
     ("tq.m1", {"a": HEAD + _T14_M1})],
    leaves=[("ta.inner.leaf", "V", "int", True), ("ta.inner.leaf", "U", "int", True), ("ta.inner.leaf", "F", "int", True), ("tq2.helpers", "W", "int", True), ("ta.inner.sub.deeper.deepest", "D", "int", True), ("ta.outer", "Z", "int", False)],
    entry=("tq.m1", "f"),
    kept=["/t14/g", "/t14/f"],
    accepted=("tq2", "ta.inner", "tq"),
)
T["T14"].modules["tq.zclash"] = {"a": clash_source(T["T14"])}

# ---------------------------------------------------------------- T18: shapes for the exported graph - a function with a default-valued parameter kept
# (without passing it) before a sibling and kept again by a later function; a chain of three keeps
_T18 = '''
V = 0


def fa(n=3):
    tick.hit("fa")
    return ("a", n, V)


def fb():
    tick.hit("fb")
    return ("b", V)


def fp():
    tick.hit("fp")
    return ("p", dds.keep("/t18/a", fa), dds.keep("/t18/b", fb))


def fq():
    tick.hit("fq")
    return ("q", dds.keep("/t18/a", fa))


def top():
    return ("top", dds.keep("/t18/p", fp), dds.keep("/t18/q", fq))


def fx():
    tick.hit("fx")
    return ("x", V)


def fm():
    tick.hit("fm")
    return ("m", dds.keep("/t18/x", fx))


def fc():
    tick.hit("fc")
    return ("c", dds.keep("/t18/m", fm))


def chain():
    return ("chain", dds.keep("/t18/c", fc))
'''
_t(
    "T18",
    [PKG, ("tq.m1", {"a": HEAD + _T18})],
    leaves=[("tq.m1", "V", "int", True)],
    entry=("tq.m1", "top"),
    kept=["/t18/a", "/t18/b", "/t18/p", "/t18/q"],
)
T["T18"].modules["tq.zclash"] = {"a": clash_source(T["T18"])}

# ---------------------------------------------------------------- T9: dds.load placements
_T9 = '''
import pathlib

V = 0


@dds.data_function("/t9/p")
def prod():
    tick.hit("prod")
    return ("p", V)


def g():
    tick.hit("g")
    return ("g", V)


def helper():
    return ("hl", dds.load("/t9/p"))


def reader():
    tick.hit("reader")
    return ("r", dds.load("/t9/p"))


def reader_h():
    tick.hit("reader_h")
    return ("rh", helper())


def reader_k():
    tick.hit("reader_k")
    return ("rk", dds.load("/t9/k"))


def root_a():
    # producer (data function) earlier in the same evaluation, load inside a kept function
    prod()
    return dds.keep("/t9/r", reader)


def root_b():
    # load at the top level of the evaluated function
    prod()
    x = dds.load("/t9/p")
    return ("root_b", x)


def root_c():
    # load in a helper of a kept function
    prod()
    return dds.keep("/t9/rh", reader_h)


def root_d():
    # producer is a keep call
    dds.keep("/t9/k", g)
    return dds.keep("/t9/rk", reader_k)


def reader_k2():
    tick.hit("reader_k2")
    return ("rk2", dds.load("/t9/k2"))


def root_f():
    # ONE function kept under two paths, the later one is loaded
    dds.keep("/t9/k1", g)
    dds.keep("/t9/k2", g)
    return dds.keep("/t9/rk2", reader_k2)


PK = pathlib.Path("/t9/k3")


def reader_pp():
    tick.hit("reader_pp")
    return ("rpp", dds.load(PK))


def root_g():
    # the path is a pathlib.Path object (a documented path type) for the keep and for the load
    dds.keep(PK, g)
    return dds.keep("/t9/rpp", reader_pp)


def root_e():
    # producer ran in an EARLIER evaluation; this evaluation only reads
    return dds.keep("/t9/r", reader)


def bad_before():
    # reads before producing in the same evaluation
    x = dds.keep("/t9/r", reader)
    prod()
    return x


def bad_inline():
    x = dds.load("/t9/p")
    prod()
    return ("bad", x)


def bad_never():
    return dds.keep("/t9/rn", reader_never)


def reader_never():
    tick.hit("reader_never")
    return ("rn", dds.load("/t9/never"))
'''
_t(
    "T9",
    [PKG, ("tq.m1", {"a": HEAD + _T9, "b": HEAD + _T9.replace('return ("p", V)', 'return ("p2", V)')})],
    leaves=[("tq.m1", "V", "int", True)],
    entry=("tq.m1", "root_a"),
    kept=["/t9/p", "/t9/r"],
)
T["T9"].modules["tq.zclash"] = {"a": clash_source(T["T9"])}

# ---------------------------------------------------------------- T13: spellings of one binding; literals seen in source
_T13 = '''
def h1(x):
    tick.hit("h1")
    return ("h1", x)


def g2(a, b):
    tick.hit("g2")
    return ("g2", a, b)


def g3(x, y=5, z="k"):
    tick.hit("g3")
    return ("g3", x, y, z)


def gf(x, y=0, z=None):
    tick.hit("gf")
    return ("gf", x, y, z)


def root_pos():
    return dds.keep("/t13/a", g3, 1, 7, "q")


def root_kw():
    return dds.keep("/t13/a", g3, 1, 7, z="q")


def root_kw2():
    return dds.keep("/t13/a", g3, z="q", y=7, x=1)


def root_def():
    return dds.keep("/t13/a", g3, 1)


def root_defx():
    return dds.keep("/t13/a", g3, 1, 5, "k")


def root_defk():
    return dds.keep("/t13/a", g3, 1, z="k")


def root_other():
    return dds.keep("/t13/a", g3, 1, 7, "r")


def root_kw_other():
    return dds.keep("/t13/a", g3, 1, 7, z="r")


def root_ykw():
    return dds.keep("/t13/a", g3, 1, y=7)


def root_ykw_other():
    return dds.keep("/t13/a", g3, 1, y=8)


def root_zkw():
    return dds.keep("/t13/a", g3, 1, z="q")


def root_zkw_other():
    return dds.keep("/t13/a", g3, 1, z="r")


def root_zpos():
    return dds.keep("/t13/a", g3, 1, 5, "q")


def root_swap():
    return dds.keep("/t13/a", g2, 2, 1)


def root_same():
    return dds.keep("/t13/a", g2, 1, 2)
'''
LITERALS = [("0", 0), ("1", 1), ("-1", -1), ("True", True), ("False", False), ("None", None), ('""', ""), ('"a"', "a"), ("1.5", 1.5)]
for _i, (_src, _v) in enumerate(LITERALS):
    _T13 += "\n\ndef lit_%d():\n    return dds.keep(\"/t13/a\", h1, %s)\n" % (_i, _src)
_t(
    "T13",
    [PKG, ("tq.m1", {"a": HEAD + _T13, "b": HEAD + _T13.replace('def g3(x, y=5, z="k"):', 'def g3(x, y=9, z="k"):')})],  # b: a default edited
    leaves=[],
    entry=("tq.m1", "root_pos"),
    kept=["/t13/a"],
)

# ---------------------------------------------------------------- T10: further constructs - variable read through a module alias, multi-line
# keep call with a run-time argument, lambda handed to a higher-order helper, function defined inside a function, dds_function decorator
_T10_M2 = '''
Q = 0
R = 0


def scale(v):
    tick.hit("scale")
    return ("sc", v, R)
'''
_T10 = '''
import tq.m2 as mm
from tq.m2 import scale

L = 0


def apply(fn, v):
    return fn(v)


def g(x, y=5):
    tick.hit("g")
    return ("g", x, y)


def outer_fn():
    def inner_fn(v):
        return ("in", v, L)
    return inner_fn(1)


@dds.dds_function("/t10/old")
def old_style():
    tick.hit("old_style")
    return ("old", mm.Q)


@dds.data_function("/t10/f")
def f():
    tick.hit("f")
    z = (L,
         1)
    c = dds.keep("/t10/c",
                 g,
                 z,
                 y=6)
    return ("f", old_style(), scale(2), apply(lambda v: ("lam", v, L), 3), outer_fn(), c)
'''
_t(
    "T10",
    [PKG, ("tq.m2", {"a": HEAD + _T10_M2, "b": HEAD + _T10_M2.replace('("sc", v, R)', '("sc2", v, R)')}),
     ("tq.m1", {"a": HEAD + _T10, "b": HEAD + _T10.replace('("lam", v, L)', '("lam2", v, L)'), "c": HEAD + _T10.replace('("in", v, L)', '("in2", v, L)'), "d": HEAD + _T10.replace("y=6)", "y=7)"),
                 # e -> f: an edit that changes nothing but the indentation of one line (a statement leaves the loop)
                 "e": HEAD + _T10.replace("    return fn(v)\n", "    r = fn(v)\n    for _i in range(2):\n        r = (\"w\", r)\n        r = (\"x\", r)\n    return r\n"),
                 "f": HEAD + _T10.replace("    return fn(v)\n", "    r = fn(v)\n    for _i in range(2):\n        r = (\"w\", r)\n    r = (\"x\", r)\n    return r\n")})],
    leaves=[("tq.m1", "L", "int", True), ("tq.m2", "Q", "int", True), ("tq.m2", "R", "int", True)],
    entry=("tq.m1", "f"),
    kept=["/t10/old", "/t10/c", "/t10/f"],
)
T["T10"].modules["tq.zclash"] = {"a": clash_source(T["T10"])}

# ---------------------------------------------------------------- T1main: the T1 program living in the __main__ module (a script)
_t(
    "T1main",
    [("__main__", dict(T["T1"].modules["tq.m1"]))],
    leaves=[("__main__", "G", "int", True), ("__main__", "H", "int", False)],
    entry=("__main__", "f"),
    kept=["/t1/f"],
    accepted=(),
)

# ---------------------------------------------------------------- T11: kept functions whose results are None / falsy; one function kept twice with
# different run-time arguments
_T11 = '''
G = 0


@dds.data_function("/t11/n")
def fnone():
    tick.hit("fnone")
    return None


@dds.data_function("/t11/z")
def fzero():
    tick.hit("fzero")
    return 0 if G else ""


def g(x):
    tick.hit("g")
    return ("g", x)


def root(n):
    a = dds.keep("/t11/a", g, (n, 1))
    b = dds.keep("/t11/b", g, (n, 2))
    return ("root", fnone(), fzero(), a, b)
'''
_t(
    "T11",
    [PKG, ("tq.m1", {"a": HEAD + _T11, "b": HEAD + _T11.replace("(n, 2)", "(n, 3)")})],
    leaves=[("tq.m1", "G", "int", True)],
    entry=("tq.m1", "root"),
    kept=["/t11/n", "/t11/z", "/t11/a", "/t11/b"],
)
T["T11"].modules["tq.zclash"] = {"a": clash_source(T["T11"])}

# ---------------------------------------------------------------- T15: three levels - top -> zero-argument mid (reads nothing) -> leaf kept with a
# run-time argument. An edit of top before the call is outside the cone of mid and leaf.
_T15 = '''
def leaf(v):
    tick.hit("leaf")
    return ("leaf", v)


def mid():
    # (no execution log here: mid must not reference any external name, not even the logger)
    w = (1, 2)
    return ("mid", dds.keep("/t15/leaf", leaf, w))


def other():
    tick.hit("other")
    return ("other", 1)


def top():
    tick.hit("top")
    x = 1
    return ("top", x, dds.keep("/t15/mid", mid))
'''
_t(
    "T15",
    [PKG, ("tq.m1", {
        "a": HEAD + _T15,
        "b": HEAD + _T15.replace("    x = 1\n", "    x = 2\n"),  # unrelated local statement of the caller, before the call
        "c": HEAD + _T15.replace("    x = 1\n", "    x = 1\n    y = dds.keep(\"/t15/other\", other)\n"),  # an unrelated sibling keep added before the call
    })],
    leaves=[],
    entry=("tq.m1", "top"),
    kept=["/t15/mid", "/t15/leaf"],
)
T["T15"].modules["tq.zclash"] = {"a": clash_source(T["T15"])}

# T7 also reads a tracked variable whose name is a Python builtin
for _v in ("a", "b"):
    T["T7"].modules["tq.m1"][_v] = T["T7"].modules["tq.m1"][_v].replace("G = 0\n", "G = 0\nmax = 0\n").replace('return ("l", G)', 'return ("l", G, max)').replace('return ("l2", G)', 'return ("l2", G, max)')
T["T7"].leaves.append(("tq.m1", "max", "int", True))
T["T7"].modules["tq.zclash"] = {"a": clash_source(T["T7"])}
