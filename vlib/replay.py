"""
Replay one counterexample WITHOUT CrossHair:  python -m vlib.replay <case.json>

The harness module's `replay(sel, args, fn)` re-runs the scenario against the
real code (real hashlib/struct/OS where the property allows; see each module)
and returns {"reproduced": bool, "detail": str}. Modules without a specific
replay fall back to executing the harness function concretely.
Prints `REPLAY-RESULT <json>`; exit 0 = did not reproduce, 1 = reproduced.
"""
import importlib
import json
import os
import sys
import traceback

ROOT = os.path.dirname(os.path.dirname(os.path.abspath(__file__)))
if ROOT not in sys.path:
    sys.path.insert(0, ROOT)


def concrete(mod, fn_name, sel, args):
    from vlib import h

    h.SEL.clear()
    h.SEL.update(sel or {})
    h.TWIN = False
    h.set_blocks([])
    h.HARNESS[0] = mod
    if hasattr(mod, "setup_query"):
        mod.setup_query(h.SEL)
    fn = mod.make_fn(fn_name, h.SEL, "replay") if hasattr(mod, "make_fn") else getattr(mod, fn_name)
    try:
        ok = fn(**args)
    except BaseException as e:  # concrete run: nothing to steer
        return {"reproduced": True, "detail": "harness raised %s: %s" % (type(e).__name__, str(e)[:400])}
    if ok:
        return {"reproduced": False, "detail": "harness assertion holds on concrete re-execution"}
    return {"reproduced": True, "detail": "harness assertion false on concrete re-execution" + (" | " + str(getattr(mod, "LAST_DETAIL", [""])[0]) if getattr(mod, "LAST_DETAIL", None) else "")}


def main():
    case = json.load(open(sys.argv[1]))
    from vlib import h as _h

    case["args"] = _h.decode_args(case["args"])
    mod = importlib.import_module(case["module"])
    try:
        if hasattr(mod, "replay"):
            res = mod.replay(case["sel"], case["args"], case["fn"])
            if res is None:
                res = concrete(mod, case["fn"], case["sel"], case["args"])
        else:
            res = concrete(mod, case["fn"], case["sel"], case["args"])
    except BaseException as e:
        traceback.print_exc()
        print("replay crashed: %r" % (e,))
        sys.exit(2)
    print("REPLAY-RESULT " + json.dumps(res, default=repr))
    sys.exit(1 if res.get("reproduced") else 0)


if __name__ == "__main__":
    main()
