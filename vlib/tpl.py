"""
Template programs (DESIGN 4.2): concrete source text, symbolic leaves.

A template is a set of module sources (each with named variants = alternative texts). Modules are created
in-process (types.ModuleType + exec of the variant's code object, file name registered in linecache, which is
what a notebook cell or importlib.reload does), once for the real dds and once as the PLAIN TWIN in which the
name `dds` is bound to PlainDDS: keep(p, f, *a) = f(*a), data_function = identity wrapper, load(p) = the value
most recently produced at p in program order, eval(f, *a) = f(*a). The twin's result is "what running the same
code without dds returns". Leaves (module variables) are assigned on both copies and may be symbolic.
"""
import linecache
import sys
import types
from collections import OrderedDict

from vlib import tick

try:
    from crosshair.tracers import NoTracing, is_tracing
except ImportError:  # replay in a plain interpreter
    NoTracing = None

    def is_tracing():
        return False


class _Native:
    def __enter__(self):
        self.ctx = NoTracing() if (NoTracing is not None and is_tracing()) else None
        if self.ctx is not None:
            self.ctx.__enter__()

    def __exit__(self, *a):
        if self.ctx is not None:
            self.ctx.__exit__(*a)
        return False


class PlainLoadError(Exception):
    pass


class PlainDDS(types.ModuleType):
    """Stands for the module `dds` in the plain twin."""

    def __init__(self):
        types.ModuleType.__init__(self, "dds")
        self.produced = OrderedDict()
        self.DDSException = Exception

    def keep(self, path, fun, *args, **kwargs):
        v = fun(*args, **kwargs)
        self.produced[str(path)] = v
        return v

    def eval(self, fun, *args, **kwargs):
        kwargs.pop("dds_export_graph", None)
        kwargs.pop("dds_extra_debug", None)
        kwargs.pop("dds_stages", None)
        return fun(*args, **kwargs)

    def load(self, path):
        if str(path) not in self.produced:
            raise PlainLoadError(str(path))
        return self.produced[str(path)]

    def data_function(self, path):
        def deco(f):
            def wrapper(*a, **k):
                v = f(*a, **k)
                self.produced[str(path)] = v
                return v

            wrapper.__name__ = f.__name__
            wrapper.__wrapped__ = f
            return wrapper

        return deco

    dds_function = data_function

    def accept_module(self, m):
        pass


_COUNTER = [0]


class Instance:
    """One live copy (real or twin) of a template."""

    def __init__(self, tpl, twin):
        self.tpl = tpl
        self.twin = twin
        self.mods = OrderedDict()
        self.plain = PlainDDS() if twin else None
        self.variant = {}

    def _install_sys(self):
        saved = {}
        for name, m in self.mods.items():
            saved[name] = sys.modules.get(name)
            sys.modules[name] = m
        if self.twin:
            saved["dds"] = sys.modules.get("dds")
            sys.modules["dds"] = self.plain
        return saved

    @staticmethod
    def _restore_sys(saved):
        for name, m in saved.items():
            if m is None:
                sys.modules.pop(name, None)
            else:
                sys.modules[name] = m

    def load_module(self, modname, variant):
        """(Re-)executes the text of `variant` in the module's namespace."""
        with _Native():
            src = self.tpl.modules[modname][variant]
            _COUNTER[0] += 1
            fname = "<tpl %s %s %s #%d>" % (modname, variant, "twin" if self.twin else "real", _COUNTER[0])
            linecache.cache[fname] = (len(src), None, src.splitlines(True), fname)
            code = compile(src, fname, "exec")
            m = self.mods.get(modname)
            if m is None:
                m = types.ModuleType(modname)
                m.__file__ = fname
                m.__package__ = modname.rpartition(".")[0]
                self.mods[modname] = m
                parent, _, child = modname.rpartition(".")
                if parent and parent in self.mods:
                    setattr(self.mods[parent], child, m)
            m.__file__ = fname  # inspect finds the source of a class through its module's __file__
            saved = self._install_sys()
            try:
                exec(code, m.__dict__)
            finally:
                if self.twin:
                    self._restore_sys(saved)
            self.variant[modname] = variant
        return m

    def build(self, variants=None):
        variants = variants or {}
        for modname in self.tpl.modules:
            self.load_module(modname, variants.get(modname, "a"))
        return self

    def activate(self):
        """Make this instance's modules the ones `import` finds (the real instance stays active)."""
        with _Native():
            self._install_sys()

    def set_leaf(self, modname, var, value):
        self.mods[modname].__dict__[var] = value

    def call(self, modname, fname, *args, **kwargs):
        f = self.mods[modname].__dict__[fname]
        return f(*args, **kwargs)


class Template:
    def __init__(self, name, modules, leaves, entry, accepted, kept, notes=""):
        self.name = name
        self.modules = modules  # OrderedDict modname -> {variant: source}
        self.leaves = leaves  # [(modname, var, type, in_cone_of:set of kept paths or None)]
        self.entry = entry  # (modname, function name)
        self.accepted = accepted  # list of module / package names passed to dds.accept_module
        self.kept = kept  # kept paths in program order
        self.notes = notes


def drop_modules(tpl):
    with _Native():
        for name in tpl.modules:
            sys.modules.pop(name, None)
