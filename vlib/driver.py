"""
Driver: runs all queries of one property in parallel (one OS process per query),
replays counterexamples against the real code, applies the known-findings
blocking loop (DESIGN 2.5), writes the evidence file and decides the exit code.

Exit codes: 0 = held on everything explored (possibly with KNOWN-FINDING lines),
1 = VIOLATION (replayed counterexample not listed), 3 = harness error.
"""
import importlib
import json
import os
import shutil
import subprocess
import sys
import tempfile
import time

ROOT = os.path.dirname(os.path.dirname(os.path.abspath(__file__)))
# evidence of a run against a worktree (VERIF_REPO, used by bin/seedtest) never overwrites the evidence of /repo
DEFAULT_BUDGET_S = {"thorough": 720}
MAX_QUERY_S = {"thorough": 1000}
EVID = os.path.join(ROOT, "evidence", "_worktree") if os.environ.get("VERIF_REPO") else os.path.join(ROOT, "evidence")
PY = os.path.join(ROOT, ".venv", "bin", "python")
MAX_BLOCK_ROUNDS = 12


def load_known(prop):
    out = []
    p = os.path.join(ROOT, "known_findings.jsonl")
    if not os.path.exists(p):
        return out
    for line in open(p):
        line = line.strip()
        if not line or line.startswith("#") or line.startswith("fixed:"):
            continue
        e = json.loads(line)
        if e.get("property") == prop:
            out.append(e)
    return out


class Job:
    def __init__(self, q, twin=False):
        self.q = dict(q)
        self.twin = twin
        self.proc = None
        self.qfile = None
        self.rfile = None
        self.t0 = None
        self.rounds = 0


def _spawn(job, scratch, env):
    q = dict(job.q)
    q["twin"] = job.twin
    tag = "%s%s_%d" % (q["id"].replace("/", "_"), "_twin" if job.twin else "", job.rounds)
    job.qfile = os.path.join(scratch, tag + ".q.json")
    job.rfile = os.path.join(scratch, tag + ".r.json")
    with open(job.qfile, "w") as f:
        json.dump(q, f)
    job.t0 = time.time()
    job.proc = subprocess.Popen(
        [PY, "-m", "vlib.z3q" if q.get("kind") == "z3" else "vlib.ch", job.qfile, job.rfile],
        cwd=ROOT,
        env=env,
        stdout=subprocess.DEVNULL,
        stderr=open(os.path.join(scratch, tag + ".err"), "w"),
    )


def _collect(job):
    try:
        with open(job.rfile) as f:
            return json.load(f)
    except Exception:
        err = ""
        try:
            err = open(job.rfile.replace(".r.json", ".err")).read()[-2000:]
        except Exception:
            pass
        return {"state": "ERROR", "message": "no result file; stderr: " + err, "args": None, "id": job.q["id"]}


def run_replay(prop_mod_name, q, args, scratch, env, save_to=None):
    case = {"module": prop_mod_name, "id": q["id"], "fn": q["fn"], "sel": q.get("sel") or {}, "args": args}
    path = save_to or os.path.join(scratch, "replay_%s_%d.json" % (q["id"].replace("/", "_"), int(time.time() * 1000) % 100000))
    with open(path, "w") as f:
        json.dump(case, f, indent=1, default=repr)
    try:
        out = subprocess.run(
            [PY, "-m", "vlib.replay", path], cwd=ROOT, env=env, capture_output=True, text=True, timeout=600
        )
    except subprocess.TimeoutExpired:
        return {"reproduced": False, "detail": "replay timed out"}, path
    last = None
    for line in out.stdout.splitlines():
        if line.startswith("REPLAY-RESULT "):
            last = json.loads(line[len("REPLAY-RESULT "):])
    if last is None:
        return {"reproduced": False, "detail": "replay crashed: " + (out.stderr or out.stdout)[-1500:], "crashed": True}, path
    return last, path


def run_property(prop, tier, seed=0, only=None, jobs=None, verbose=True):
    t_start = time.time()
    sys.path.insert(0, ROOT)
    mod_name = "harness." + prop
    mod = importlib.import_module(mod_name)
    from vlib import h, preflight

    env = dict(os.environ)
    env["PYTHONPATH"] = (os.environ["VERIF_REPO"] + os.pathsep if os.environ.get("VERIF_REPO") else "") + ROOT + os.pathsep + env.get("PYTHONPATH", "")
    env["PYTHONHASHSEED"] = "0"
    env["VERIF_TIER"] = tier
    env.setdefault("TJHUNTER_DDS_PY_VERIF", "1")
    scratch = tempfile.mkdtemp(prefix="verif-%s-" % prop)
    env["VERIF_SCRATCH"] = scratch
    os.environ["VERIF_SCRATCH"] = scratch
    nworkers = jobs or int(os.environ.get("VERIF_JOBS", "16"))
    known = load_known(prop)
    harness_errors = []
    try:
        pf = preflight.run(prop, getattr(mod, "STUBBED_NAMES", None))
        if pf:
            harness_errors.append("preflight: " + pf)
        if hasattr(mod, "selftest"):
            st = mod.selftest()
            if st:
                harness_errors.append("selftest: " + st)
        queries = mod.queries(tier)
        if tier == "thorough" and getattr(mod, "THOROUGH_INCLUDES_QUICK", False):
            # the thorough tier starts with the whole quick tier (scheduled first), then goes deeper as far as its wall budget allows
            deep_ids = set(q["id"] for q in queries)
            first = [dict(q, cost=1000000) for q in mod.queries("quick") if q["id"] not in deep_ids]
            queries = first + queries
        if only:
            queries = [q for q in queries if any(o in q["id"] for o in only)]
        cap = float(os.environ.get("VERIF_MAX_QUERY_S") or MAX_QUERY_S.get(tier) or 0)
        if cap:
            for q in queries:
                if float(q.get("timeout", 60)) > cap:
                    q["timeout"] = cap  # a query that needs longer ends as inconclusive (stated in the evidence), never as a pass
        for q in queries:
            q.setdefault("module", mod_name)
            q.setdefault("blocks", [])
            q.setdefault("sel", {})
        # longest budgets first, so that the long poles do not start last
        pending = [Job(q) for q in sorted(queries, key=lambda q: -float(q.get("cost", q.get("timeout", 60))))]
        running = []
        records = {q["id"]: {"id": q["id"], "sel": q["sel"], "fn": q["fn"], "rounds": [], "final": None, "twin": None, "known": [], "spurious": []} for q in queries}
        violations = []
        known_printed = set()
        replay_dir = os.path.join(EVID, "replays", prop)

        def finish_main(job, res):
            rec = records[job.q["id"]]
            rec["rounds"].append({k: res.get(k) for k in ("state", "args", "paths", "confirmed_paths", "smt_calls", "solver_s", "wall_s", "cpu_s", "message")})
            st = res["state"]
            if st == "REFUTED":
                args = res.get("args")
                if not isinstance(args, dict) or "__unparsed__" in (args or {}):
                    rec["final"] = "ERROR"
                    harness_errors.append("%s: cannot parse counterexample: %s" % (job.q["id"], res.get("message", "")[:300]))
                    return
                rp, path = run_replay(mod_name, job.q, args, scratch, env)
                if rp.get("crashed"):
                    rec["final"] = "ERROR"
                    harness_errors.append("%s: %s" % (job.q["id"], rp["detail"][-600:]))
                    return
                if not rp.get("reproduced"):
                    # model-level only: never an alarm; block and continue (DESIGN 2.4)
                    rec["spurious"].append({"args": args, "detail": rp.get("detail")})
                    job.q.setdefault("block_args", []).append(args)
                    blk = " and ".join("%s == %r" % (k, v) for k, v in h.decode_args(args).items())
                    job.q["blocks"].append(blk or "True")
                else:
                    hit = None
                    for e in known:
                        if e.get("query") and not job.q["id"].startswith(e["query"]):
                            continue
                        if h.match_expr(e["match"], h.decode_args(args), job.q["sel"], mod):
                            hit = e
                            break
                    if hit is None:
                        os.makedirs(replay_dir, exist_ok=True)
                        dest = os.path.join(replay_dir, "%s_%d.json" % (job.q["id"].replace("/", "_"), len(violations)))
                        shutil.copy(path, dest)
                        violations.append({"query": job.q["id"], "args": args, "detail": rp.get("detail"), "replay": dest})
                        rec["final"] = "VIOLATION"
                        print("VIOLATION property=%s replay=%s" % (prop, dest), flush=True)
                        print("  query=%s args=%s\n  %s" % (job.q["id"], json.dumps(args, default=repr), rp.get("detail")), flush=True)
                        return
                    rec["known"].append({"finding": hit["id"], "args": args, "detail": rp.get("detail")})
                    if hit["id"] not in known_printed:
                        known_printed.add(hit["id"])
                        print("KNOWN-FINDING: property=%s %s: %s" % (prop, hit["id"], hit["where"]), flush=True)
                    job.q.setdefault("block_args", []).append(args)
                    if hit["match"] not in job.q["blocks"]:
                        job.q["blocks"].append(hit["match"])
                    else:
                        # the block did not exclude it: predicate not evaluable symbolically
                        blk = " and ".join("%s == %r" % (k, v) for k, v in args.items())
                        job.q["blocks"].append(blk or "True")
                job.rounds += 1
                if job.rounds >= MAX_BLOCK_ROUNDS:
                    rec["final"] = "UNKNOWN"
                    rec["note"] = "blocking loop bound reached"
                    pending.append(Job(job.q, twin=True))
                    return
                nj = Job(job.q)
                nj.rounds = job.rounds
                pending.insert(0, nj)
                return
            if st == "CONFIRMED":
                rec["final"] = "CONFIRMED"
            elif st == "ERROR":
                rec["final"] = "ERROR"
                harness_errors.append("%s: %s" % (job.q["id"], res.get("message", "")[-800:]))
            else:
                rec["final"] = st  # UNKNOWN / PRE_UNSAT -> inconclusive
            if not job.q.get("no_twin"):
                tq = dict(job.q)
                main_t = float(job.q.get("timeout", 60))
                tq["timeout"] = min(main_t, float(job.q.get("twin_timeout", max(40.0, main_t / 3))))
                tq["per_path_timeout"] = float(job.q.get("per_path_timeout", max(10.0, main_t / 4)))  # a slow single path must not look vacuous
                pending.append(Job(tq, twin=True))

        def finish_twin(job, res):
            rec = records[job.q["id"]]
            rec["twin"] = {"state": res["state"], "args": res.get("args"), "paths": res.get("paths"), "smt_calls": res.get("smt_calls"), "solver_s": res.get("solver_s")}
            if res["state"] in ("CONFIRMED", "PRE_UNSAT"):
                harness_errors.append("%s: vacuous (reachability twin %s)" % (job.q["id"], res["state"]))
            elif res["state"] == "ERROR":
                harness_errors.append("%s twin: %s" % (job.q["id"], res.get("message", "")[-500:]))

        # wall budget of the tier (thorough only by default): once it is used up, queries that have not been started are
        # not run and reported as inconclusive ("not run: wall budget"); started ones finish (each bounded by its timeout)
        budget = os.environ.get("VERIF_BUDGET_S") or (getattr(mod, "BUDGET_S", {}) or {}).get(tier) or (DEFAULT_BUDGET_S.get(tier))
        budget = float(budget) if budget else None
        skipped_budget = 0
        while pending or running:
            if budget and pending and time.time() - t_start > budget:
                keep = []
                for j in pending:
                    if j.twin or j.rounds > 0:
                        keep.append(j)
                    else:
                        records[j.q["id"]]["note"] = "not run: wall budget of the %s tier (%ds) exhausted" % (tier, budget)
                        skipped_budget += 1
                pending = keep
            while pending and len(running) < nworkers:
                j = pending.pop(0)
                _spawn(j, scratch, env)
                running.append(j)
            time.sleep(0.05)
            still = []
            for j in running:
                rc = j.proc.poll()
                hard = float(j.q.get("timeout", 60)) * 3 + 120
                if rc is None and time.time() - j.t0 > hard:
                    j.proc.kill()
                    j.proc.wait()
                    rc = -9
                if rc is None:
                    still.append(j)
                    continue
                res = _collect(j) if rc == 0 else {"state": "UNKNOWN" if rc == -9 else "ERROR", "message": "runner exit %s: %s" % (rc, _collect(j).get("message", "")), "args": None}
                if verbose:
                    print("  [%s%s] %s paths=%s cpu=%ss %s" % (j.q["id"], " twin" if j.twin else "", res.get("state"), res.get("paths"), res.get("cpu_s"), (json.dumps(res.get("args"), default=repr) if res.get("args") else "")), flush=True)
                (finish_twin if j.twin else finish_main)(j, res)
            running = still

        # ------------------------------------------------------------------ evidence
        recs = list(records.values())
        total = len(recs)
        confirmed = sum(1 for r in recs if r["final"] == "CONFIRMED")
        inconclusive = sum(1 for r in recs if r["final"] in ("UNKNOWN", "PRE_UNSAT", None))
        viol = sum(1 for r in recs if r["final"] == "VIOLATION")
        nontrivial = sum(1 for r in recs if r["twin"] and r["twin"]["state"] == "REFUTED")
        paths = sum((rd.get("paths") or 0) for r in recs for rd in r["rounds"]) + sum((r["twin"] or {}).get("paths") or 0 for r in recs)
        smt = sum((rd.get("smt_calls") or 0) for r in recs for rd in r["rounds"]) + sum((r["twin"] or {}).get("smt_calls") or 0 for r in recs)
        solver_s = sum((rd.get("solver_s") or 0) for r in recs for rd in r["rounds"]) + sum((r["twin"] or {}).get("solver_s") or 0 for r in recs)
        known_hits = sum(len(r["known"]) for r in recs)
        spurious = sum(len(r["spurious"]) for r in recs)
        samples = []
        for r in recs:
            if r["known"]:
                samples.append({"query": r["id"], "kind": "known-finding counterexample", "sel": r["sel"], "args": r["known"][0]["args"], "detail": r["known"][0]["detail"]})
        for r in recs:
            if r["twin"] and r["twin"].get("args") and len(samples) < 40:
                samples.append({"query": r["id"], "kind": "witness reaching the assertion (reachability twin)", "sel": r["sel"], "args": r["twin"]["args"]})
        for v in violations:
            samples.insert(0, {"query": v["query"], "kind": "VIOLATION", "args": v["args"], "detail": v["detail"]})
        if not samples:
            samples = [{"query": r["id"], "sel": r["sel"]} for r in recs[:5]]
        functions_encoded = []
        try:
            functions_encoded = mod.functions_encoded()
        except Exception as e:  # measured list is best effort
            functions_encoded = list(getattr(mod, "FUNCTIONS_ENCODED", [])) + ["(trace failed: %r)" % (e,)]
        exhaustive = (confirmed == total) and spurious == 0 and known_hits == 0 and not harness_errors
        ev = {
            "property_id": prop,
            "tier": tier,
            "seed": seed,
            "level": "other",
            "coverage": {
                "explanation": "bounded symbolic execution of the real dds code (CrossHair 0.0.110 + z3): each query is one harness whose inputs are z3 variables; CONFIRMED = every feasible path within the stated bounds explored and the assertion holds for all values on it; counterexamples are replayed on the real code before being reported. "
                + getattr(mod, "EXPLANATION", ""),
                "functions_encoded": functions_encoded,
                "bounds": getattr(mod, "BOUNDS", {}).get(tier, getattr(mod, "BOUNDS", {})),
                "outside": getattr(mod, "OUTSIDE", []),
                "queries": {"total": total, "confirmed": confirmed, "confirmed_after_blocking_known_findings": sum(1 for r in recs if r["final"] == "CONFIRMED" and r["known"]), "refuted_known": known_hits, "refuted_new": viol, "inconclusive": inconclusive, "spurious_model_level": spurious, "vacuous_or_error": len(harness_errors), "not_run_wall_budget": skipped_budget, "wall_budget_s": budget},
                "obligations": total,
                "discharged": confirmed,
                "evaluations": max(int(paths), 1),
                "paths_explored": int(paths),
                "distinct_nontrivial": int(nontrivial),
                "rule": "one evaluation = one symbolic execution path of a harness (a path stands for all concrete inputs satisfying its path condition); a query is distinct and non-trivial iff its reachability twin (same harness, final assertion replaced by False) was refuted, i.e. the assertion is reachable under the preconditions; distinct_nontrivial counts those queries",
                "smt_calls": int(smt),
                "solver_s": round(solver_s, 2),
                "samples": samples[:60],
                "exhaustive": bool(exhaustive),
                "per_query": [
                    {"id": r["id"], "sel": r["sel"], "final": r["final"], "rounds": len(r["rounds"]), "paths": sum((rd.get("paths") or 0) for rd in r["rounds"]), "cpu_s": sum((rd.get("cpu_s") or 0) for rd in r["rounds"]), "twin": (r["twin"] or {}).get("state"), "known": [k["finding"] for k in r["known"]], "spurious": r["spurious"], "note": r.get("note")}
                    for r in recs
                ],
                "harness_errors": harness_errors,
            },
            "assumptions": list(getattr(mod, "ASSUMPTIONS", [])),
            "wall_s": round(time.time() - t_start, 2),
            "violations": len(violations),
        }
        os.makedirs(EVID, exist_ok=True)
        with open(os.path.join(EVID, prop + ".json"), "w") as f:
            json.dump(ev, f, indent=1, default=repr)
        print("%s %s: queries=%d confirmed=%d known=%d new=%d inconclusive=%d errors=%d paths=%d smt=%d solver=%.1fs wall=%.1fs" % (prop, tier, total, confirmed, known_hits, viol, inconclusive, len(harness_errors), paths, smt, solver_s, time.time() - t_start), flush=True)
        if violations:
            return 1
        if harness_errors:
            for e in harness_errors[:20]:
                print("HARNESS-ERROR %s" % e, flush=True)
            return 3
        return 0
    finally:
        shutil.rmtree(scratch, ignore_errors=True)
