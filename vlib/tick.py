"""Execution log and payloads of the generated / template pipelines.

Lives in a module that is NOT accepted by dds, so neither the log nor the payloads are tracked:
dds sees `tick` only as an external name (DESIGN 5-C02)."""
LOG = []
PAYLOAD = {}
FAIL = {"at": -1, "exc": None, "n": 0}


def hit(name):
    LOG.append(name)
    FAIL["n"] += 1
    if FAIL["at"] >= 0 and FAIL["n"] - 1 == FAIL["at"]:
        raise FAIL["exc"]


def pay(name, default=""):
    return PAYLOAD.get(name, default)


def reset():
    del LOG[:]
    FAIL["n"] = 0


def count(name=None):
    return len(LOG) if name is None else LOG.count(name)
