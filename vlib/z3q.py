"""
Direct z3 queries built from the AST of small dds kernels (DESIGN 2.3).

A tiny symbolic interpreter for the statement / expression forms these kernels
use. It executes the function's *current* source (re-read from /repo on every
run) with concrete ints and symbolic z3 strings, and returns the z3 term of the
return value. Anything it does not understand raises Unsupported, which the
caller reports as inconclusive - never as a pass.

Process entry (same result format as vlib.ch):  python -m vlib.z3q <query.json> <result.json>
"""
import ast
import importlib
import inspect
import json
import os
import sys
import textwrap
import time
import traceback

import z3

HERE = os.path.dirname(os.path.dirname(os.path.abspath(__file__)))
if HERE not in sys.path:
    sys.path.insert(0, HERE)


class Unsupported(Exception):
    pass


class SymList:
    """A Python sequence of known length whose elements are z3 strings / python values."""

    def __init__(self, items):
        self.items = list(items)


class SymSet:
    def __init__(self, items):
        self.items = list(items)


class Obj:
    """Attribute bag standing for self / cp."""

    def __init__(self, **kw):
        self.__dict__.update(kw)


class _Return(Exception):
    pass


class Interp:
    def __init__(self, env):
        self.env = dict(env)
        # list of (path condition, returned term)
        self.returns = []

    # -- expressions
    def ev(self, n):
        if isinstance(n, ast.Constant):
            if isinstance(n.value, (int, bool)):
                return n.value
            if isinstance(n.value, str):
                return z3.StringVal(n.value)
            raise Unsupported("constant %r" % (n.value,))
        if isinstance(n, ast.Name):
            if n.id in self.env:
                return self.env[n.id]
            if n.id in ("range", "len"):
                return n.id
            raise Unsupported("name %s" % n.id)
        if isinstance(n, ast.Attribute):
            base = self.ev(n.value)
            if isinstance(base, Obj) and hasattr(base, n.attr):
                return getattr(base, n.attr)
            if isinstance(n.value, ast.Constant) and n.attr == "join":
                return ("join", self.ev(n.value))
            if isinstance(base, z3.ExprRef) and n.attr == "join":
                return ("join", base)
            raise Unsupported("attribute %s" % n.attr)
        if isinstance(n, ast.Call):
            f = self.ev(n.func)
            args = [self.ev(a) for a in n.args]
            if n.keywords:
                raise Unsupported("keywords")
            if f == "len":
                (x,) = args
                if isinstance(x, (SymList, SymSet)):
                    return len(x.items)
                raise Unsupported("len of %r" % (x,))
            if f == "range":
                if not all(isinstance(a, int) for a in args):
                    raise Unsupported("symbolic range")
                return SymList(list(range(*args)))
            if isinstance(f, tuple) and f[0] == "join":
                (x,) = args
                if not isinstance(x, SymList):
                    raise Unsupported("join of non-list")
                sep = f[1]
                out = None
                for it in x.items:
                    out = it if out is None else z3.Concat(out, sep, it)
                return out if out is not None else z3.StringVal("")
            raise Unsupported("call")
        if isinstance(n, ast.Subscript):
            base = self.ev(n.value)
            if not isinstance(base, SymList):
                raise Unsupported("subscript base")
            s = n.slice
            if isinstance(s, ast.Slice):
                lo = self.ev(s.lower) if s.lower is not None else None
                hi = self.ev(s.upper) if s.upper is not None else None
                if s.step is not None or not all(isinstance(v, int) or v is None for v in (lo, hi)):
                    raise Unsupported("slice")
                return SymList(base.items[lo:hi])
            i = self.ev(s)
            if not isinstance(i, int):
                raise Unsupported("symbolic index")
            return base.items[i]
        if isinstance(n, ast.BinOp) and isinstance(n.op, (ast.Add, ast.Sub)):
            a, b = self.ev(n.left), self.ev(n.right)
            if isinstance(a, int) and isinstance(b, int):
                return a + b if isinstance(n.op, ast.Add) else a - b
            if isinstance(n.op, ast.Add) and z3.is_expr(a) and z3.is_expr(b):
                return z3.Concat(a, b)
            raise Unsupported("binop")
        if isinstance(n, ast.Compare) and len(n.ops) == 1:
            a = self.ev(n.left)
            b = self.ev(n.comparators[0])
            op = n.ops[0]
            if isinstance(op, (ast.In, ast.NotIn)):
                if not isinstance(b, (SymSet, SymList)):
                    raise Unsupported("in non-collection")
                t = z3.Or([a == w for w in b.items]) if b.items else z3.BoolVal(False)
                return t if isinstance(op, ast.In) else z3.Not(t)
            if isinstance(op, (ast.Eq, ast.NotEq)):
                if isinstance(a, int) and isinstance(b, int):
                    return (a == b) if isinstance(op, ast.Eq) else (a != b)
                t = a == b
                return t if isinstance(op, ast.Eq) else z3.Not(t)
            if isinstance(a, int) and isinstance(b, int):
                return {ast.Lt: a < b, ast.LtE: a <= b, ast.Gt: a > b, ast.GtE: a >= b}[type(op)]
            raise Unsupported("compare")
        if isinstance(n, ast.BoolOp):
            vs = [self._b(self.ev(v)) for v in n.values]
            return z3.And(vs) if isinstance(n.op, ast.And) else z3.Or(vs)
        if isinstance(n, ast.UnaryOp) and isinstance(n.op, ast.Not):
            return z3.Not(self._b(self.ev(n.operand)))
        raise Unsupported(ast.dump(n)[:80])

    @staticmethod
    def _b(v):
        if isinstance(v, bool):
            return z3.BoolVal(v)
        if z3.is_bool(v):
            return v
        raise Unsupported("non-bool condition")

    # -- statements; pc = path condition (z3 bool)
    def run(self, body, pc):
        """Returns the path condition under which control falls through."""
        for st in body:
            if isinstance(st, ast.Expr) and isinstance(st.value, ast.Constant):
                continue  # docstring
            if isinstance(st, ast.Return):
                v = self.ev(st.value) if st.value is not None else None
                self.returns.append((pc, v))
                return z3.BoolVal(False)
            if isinstance(st, ast.If):
                c = self._b(self.ev(st.test))
                p1 = self.run(st.body, z3.And(pc, c))
                p2 = self.run(st.orelse, z3.And(pc, z3.Not(c))) if st.orelse else z3.And(pc, z3.Not(c))
                pc = z3.simplify(z3.Or(p1, p2))
                continue
            if isinstance(st, ast.For):
                it = self.ev(st.iter)
                if not isinstance(it, SymList) or not isinstance(st.target, ast.Name) or st.orelse:
                    raise Unsupported("for")
                for v in it.items:
                    self.env[st.target.id] = v
                    pc = self.run(st.body, pc)
                continue
            if isinstance(st, ast.Assign) and len(st.targets) == 1 and isinstance(st.targets[0], ast.Name):
                self.env[st.targets[0].id] = self.ev(st.value)
                continue
            if isinstance(st, ast.Pass):
                continue
            raise Unsupported(type(st).__name__)
        return pc


def encode_function(fn, env):
    """Returns the z3 Bool term of the (boolean) return value of fn under env."""
    src = textwrap.dedent(inspect.getsource(fn))
    tree = ast.parse(src)
    fdef = tree.body[0]
    if not isinstance(fdef, ast.FunctionDef):
        raise Unsupported("not a function")
    it = Interp(env)
    rest = it.run(fdef.body, z3.BoolVal(True))
    if not z3.is_false(z3.simplify(rest)):
        it.returns.append((rest, None))
    out = z3.BoolVal(False)
    for pc, v in it.returns:
        if v is None:
            raise Unsupported("path without boolean return")
        vb = Interp._b(v)
        out = z3.Or(out, z3.And(pc, vb))
    return out


def main():
    qfile, rfile = sys.argv[1], sys.argv[2]
    q = json.load(open(qfile))
    t0 = time.perf_counter()
    try:
        mod = importlib.import_module(q["module"])
        res = getattr(mod, q["fn"])(q.get("sel") or {}, bool(q.get("twin")), q.get("blocks") or [], float(q.get("timeout", 60)))
    except BaseException as exc:
        if type(exc).__name__ == "Unsupported":  # this file runs as __main__, the class is also vlib.z3q.Unsupported: compare by name
            res = {"state": "UNKNOWN", "message": "translator refused: %s" % exc, "args": None}
        else:
            res = {"state": "ERROR", "message": "z3q: " + "".join(traceback.format_exception(type(exc), exc, exc.__traceback__))[-2000:], "args": None}
    res.setdefault("paths", 1)
    res.setdefault("confirmed_paths", 1 if res["state"] == "CONFIRMED" else 0)
    res.setdefault("smt_calls", 1)
    res["wall_s"] = round(time.perf_counter() - t0, 3)
    res.setdefault("cpu_s", res["wall_s"])
    res.setdefault("solver_s", res["wall_s"])
    res["id"] = q.get("id")
    json.dump(res, open(rfile, "w"), default=repr)


if __name__ == "__main__":
    main()
