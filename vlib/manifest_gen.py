"""Regenerates MANIFEST.json from the per-property table below (python -m vlib.manifest_gen)."""
import json
import os

ROOT = os.path.dirname(os.path.dirname(os.path.abspath(__file__)))

NOTE = "Trusted base: CrossHair 0.0.110 symbolic execution of CPython bytecode, z3 5.1.0; environment models and bounds listed in the evidence file; counterexamples are replayed on the real code before being reported."

CHECKS = {
    "C12": {
        "text": "Bounded symbolic execution of the real LRUCacheStore/LRUCache/MemoryStore: (1) inductive step from every pre-state over 3 keys that satisfies the representation invariant, one operation with symbolic capacity (any int >= 1) and symbolic blob values, answers equal to the bare store and invariant + size bound re-established - covers histories of any length over 3 keys; (2) all operation sequences of length 3 (quick) / 4 (thorough) from the empty state in lock step; (3) set_store cache_objects decoding for every int / bool / other value. All paths explored and SMT-decided; bounded claim, not a proof.",
        "design_ref": "DESIGN.md 5-C12",
        "technique": "symbolic execution (CrossHair/z3) of the real cache classes: inductive single step from a symbolic pre-state + bounded lock-step sequences vs the bare store",
    },
}

CHECKS["C14"] = {
    "text": "Kernel of the accepted-module decision (EvalMainContext.is_authorized_path) decided two ways: a direct z3 string query generated from the method's current AST (path segments and accepted names are free strings of any length; depth 1..7, 1..8 / 1..44 accepted names) proving equivalence with the segment-prefix specification, and CrossHair symbolic execution of the real method over depth x accepted depth x filler count x prefix-confusable names. Bounded by depth and number of names; names unbounded in the z3 form.",
    "design_ref": "DESIGN.md 5-C14",
    "technique": "direct z3 string query generated from the method's AST + CrossHair symbolic execution of the real method",
}

CHECKS["C05"] = {
    "text": "Symbolic execution of the real dds_hash (all nested closures) under an interning ideal-hash model and an abstract struct model: totality per value skeleton (str or coded DDS error for every leaf valuation, size guard fires exactly above the symbolic option value) and collision-freedom for every pair of skeletons (hash equal => structurally equivalent modulo the documented identifications) with all leaves as solver variables (32-bit ints over their whole range, ints beyond 32 bits up to 2**40 in both signs, ASCII strings <= 4, finite reals + concrete special floats). Cross-type collisions caused by the missing type tags are recorded known findings, matched by a structural rewriting predicate so that any other collision is still reported. Bounded by skeleton depth/width and leaf sizes.",
    "design_ref": "DESIGN.md 5-C05",
    "technique": "symbolic execution (CrossHair/z3) of dds_hash under an interning hash model; all pairs of value skeletons with symbolic leaves",
}

CHECKS["C08"] = {
    "text": "Symbolic execution of the real MemoryStore / LocalFileStore / LRUCacheStore and built-in codecs, the local store running over a POSIX file-system model that is validated differentially against the real OS on every run: (1) every operation sequence of length 3 (quick) / 4 (thorough) over 2 keys and 2 paths incl. reopen, in lock step with a dictionary model, blob value symbolic; (2) for every pair of paths of 1..3 segments over a confusable alphabet (a, b, ab, '..', '.', dots, space, non-ASCII): committed to different keys each resolves to its own key and every created node lies inside the data directory; (3) LocalFileStore._path_location on two fully symbolic path strings (<= 3 / 4 characters): accepted paths with different segment sequences get different locations, every location lies inside the data directory; (4) DDSPathUtils.create accepts exactly absolute paths for every short string. Counterexamples are replayed on the real OS in a temporary directory.",
    "design_ref": "DESIGN.md 5-C08",
    "technique": "symbolic execution (CrossHair/z3) of the real store classes over a file-system model, lock step against a dictionary model; path pairs chosen by the solver",
}

CHECKS["C06"] = {
    "text": "Crash points as solver variables: the real _api / LocalFileStore / codec code runs over a POSIX file-system model (validated differentially against the OS on every run); the index of the mutating file-system operation at which the process is killed and the torn-write length are symbolic ints, blob contents symbolic strings. For every crash point of three scenarios (cold nested evaluation incl. store creation; re-keep of changed code over a committed store; the same with the code edited again before the recovery and a recovering process that reuses the pid of the killed one) a fresh recovery process must load old-or-new complete values, evaluate to the plain values, serve them at every path right afterwards, and heal (second evaluation executes nothing). Exhaustive over all operation boundaries of the scenarios within the stated torn-length bound; counterexamples are replayed on the real OS by killing a child process at the same operation.",
    "design_ref": "DESIGN.md 5-C06",
    "technique": "symbolic execution (CrossHair/z3) of the real evaluation + local store over a file-system model with a symbolic crash index and torn-write length; real-OS replay by os._exit in a child",
}

CHECKS["C07"] = {
    "text": "Interleavings as solver variables: two simulated processes run the real _api / LocalFileStore / codec code over one POSIX file-system model (validated differentially against the OS) under a replay scheduler; which process starts and the pre-emption points (global file-system-step counts, each buffered write split in two) are symbolic ints, explored exhaustively up to the pre-emption bound (quick 1, thorough 2) for three scenarios: same evaluation on a cold store incl. store creation, writer of changed code vs reader of committed paths, shared internal directory with different data directories. Every returned value must be complete and correct, no process may fail, and a fresh process afterwards executes nothing. Counterexamples are replayed with two real OS processes released step by step by a controller.",
    "design_ref": "DESIGN.md 5-C07",
    "technique": "symbolic execution (CrossHair/z3) over a file-system model with a replay scheduler; schedule (first process, switch points) as solver variables; real two-process replay",
}

CHECKS["C01"] = {
    "text": "Whole-library symbolic execution: the real dds analysis (introspect, _introspect_indirect, _retrieve_objects, fun_args, _annotations), evaluation (_api) and stores run on template programs whose source text is concrete and whose tracked module variables (int, str, bool, float, list, tuple, dict, None, path), run-time arguments and 2-3 step histories (value changes, body edits of the kept function / of transitive callees / of class methods / in other modules, reverts, process restarts, entry-style switches, memory / noop / cache-wrapped stores) are solver variables, under an interning ideal-hash model. After every step the value returned by dds must equal the value the plain twin of the same sources returns. Exhaustive over all values of the leaves per template and history; bounded by the template corpus and history length.",
    "design_ref": "DESIGN.md 5-C01",
    "technique": "symbolic execution (CrossHair/z3) of the whole dds analysis + evaluation on template programs with symbolic module variables / arguments / histories under an ideal-hash model, differential against a dds-free plain twin",
}

CHECKS["C02"] = {
    "text": "Same engine as C01 with two observation points - the execution log of the generated code and the path -> signature map handed to Store.sync_paths: for histories (s, s), (s, s', s) and for edits outside a kept node's dependency cone (DESIGN.md 4.1: unrelated variable, unrelated definitions / reordering, non-accepted module body or variable, sibling's private dependency, copy of the code in another accepted module, restart, entry-style switch) no kept body is executed and the node's signature is equal, for every value of the tracked variables (solver variables). Bounded by the template corpus.",
    "design_ref": "DESIGN.md 5-C02, 4.1",
    "technique": "symbolic execution (CrossHair/z3) of the whole analysis + evaluation on template programs; execution log and signature equality over histories that agree on the dependency cone",
}
CHECKS["C03"] = {
    "text": "Non-interference by self-composition: in one symbolic path the same template state is analysed twice under two environment valuations (disjoint object identities, different module file names / code objects, memory vs cache-wrapped store, extra_debug and graph export on/off, fresh process vs a process that evaluated other states, edited code and a name-clashing other program before) and the path -> signature maps must be equal for all leaf values; plus a differential query against /verif/ref/dds_ref, a frozen copy of the library, under one shared interning table (equal tokens = byte-identical SHA-256 signatures) for all leaf values; plus a native run with the real hashlib against pinned signatures (validates the hash-model assumption).",
    "design_ref": "DESIGN.md 5-C03",
    "technique": "symbolic execution (CrossHair/z3): self-composition over two environment valuations + differential execution against a frozen reference copy of the library",
}

CHECKS["C09"] = {
    "text": "Same engine as C01/C02 on a template with every placement of dds.load (top level of the evaluated function, inside a kept function, in a helper of a kept function) x producer kind (data function, dds.keep call) x producer position (earlier in the same evaluation, earlier evaluation, revert history, never / later): the value a load returns and the reader's result equal the plain twin's (whose load returns the value most recently produced in program order) for all values of the producer's tracked variable over 2-5 step histories on fresh and populated stores; the reader is re-executed iff the signature served at the path changed; read-before-produce and never-produced paths end in a DDSException.",
    "design_ref": "DESIGN.md 5-C09",
    "technique": "symbolic execution (CrossHair/z3) of the whole analysis + evaluation on load-placement templates with symbolic producer state, differential against the plain twin",
}

CHECKS["C04"] = {
    "text": "Real _api / store code (analysis of the concrete pipeline run natively) over memory, local (file-system model) and cache-wrapped local stores: three-step histories in which the code version of every step is a solver variable (edits, re-keeps, reverts) and the blob payload a symbolic string, for entry patterns (same pipeline / another pipeline in between), entry styles (dds.eval of an un-kept root, top-level dds.keep), restarts and path shapes (flat, shared directories, 4 segments with concatenation-ambiguous names, spaces / non-ASCII). After every step every path kept so far is read back by dds.load in the same process, by dds.load in a fresh process and (local) from the file under the data directory and must equal the value returned by the latest evaluation that kept it.",
    "design_ref": "DESIGN.md 5-C04",
    "technique": "symbolic execution (CrossHair/z3) of the real evaluation and stores over a file-system model; code version per history step and payload as solver variables",
}

CHECKS["C10"] = {
    "text": "Real _api evaluation code over memory and local (file-system model) stores on a depth-3 pipeline with a shared sub-node and a run-time-argument keep: the index of the user-function invocation that raises, the exception class (ValueError subclass, KeyboardInterrupt, BaseException subclass, FileNotFoundError) and the follow-up evaluation (same pipeline repaired / another pipeline) are solver variables (enumerated through the solver), the payload a symbolic string. Checked on every path: the very same exception object propagates; no blob under the signature of the failing node or of the nodes waiting for it, only completed nodes stored; no path committed; evaluation context cleared; the next evaluation returns the plain values, executes exactly the nodes that had not completed, and commits.",
    "design_ref": "DESIGN.md 5-C10",
    "technique": "symbolic execution (CrossHair/z3) of the real evaluation with the failing invocation index / exception class / follow-up as solver variables",
}
CHECKS["C15"] = {
    "text": "(1) _parse_stages on symbolic stage lists of length 0..5: the stage each element names, its spelling (enum member, lower / upper / mixed-case name, value) and adversarial non-stage values are solver variables; exactly the prefixes of the stage order are accepted, everything else ends in a DDSException. (2) Real evaluation over memory and local (file-system model) stores for every prefix length x spelling x 6 store pre-states (cold; other version committed; every blob of the evaluated version present while the paths serve the other version; up to date; the last two also with the root itself kept): no user code / blob / path without EVAL, unchanged path table without PATH_COMMIT, signatures equal to an unrestricted analysis, and a later full evaluation returns plain values and commits.",
    "design_ref": "DESIGN.md 5-C15",
    "technique": "symbolic execution (CrossHair/z3) of _parse_stages on symbolic lists and of the stage gates of the real evaluation",
}

CHECKS["C11"] = {
    "text": "(1) Kernel: non_terminal_leaves on lists of 3 paths (1..3 segments) and 4 paths (1..2 segments) whose lengths, segments and order are solver variables - the result is non-empty exactly when some path is a strict segment-prefix of another. (2) The rejection path of the real evaluation for a pipeline with three kept paths at different nesting positions, the paths chosen by the solver, on a cold and on a populated store: OVERLAPPING_PATH, no user function executed, blobs and paths untouched; non-overlapping paths evaluate to the plain value. (3) Finite families of generated programs (enumeration): call cycles of length 1..3 through plain calls / dds.keep / higher-order references => CIRCULAR_CALL, dds.eval nested at depth 1..3 => EVAL_IN_EVAL, nothing executed, store untouched.",
    "design_ref": "DESIGN.md 5-C11",
    "technique": "symbolic execution (CrossHair/z3) of the overlap kernel on symbolic path lists and of the evaluation's rejection path with solver-chosen kept paths; enumerated cyclic / nested-eval programs",
}

CHECKS["C13"] = {
    "text": "Whole evaluation (analysis traced) on a template with 1-3 parameter functions (with / without defaults, falsy and None defaults) under the ideal-hash model whose tokens are single bits, so that cancellations under the XOR combiner are visible: for symbolic argument values every spelling of one binding (positional, keyword, reordered keywords, default omitted / explicit) yields one signature for the kept path; two direct calls with symbolic bindings share a signature only if the bindings are equal; calls discovered as literals in source (9 literals x spellings) share the signature of the direct call with a symbolic value exactly when the value equals the literal. Three recorded known findings (falsy default omitted vs explicit, literal None vs run-time None, negative literal not constant).",
    "design_ref": "DESIGN.md 5-C13",
    "technique": "symbolic execution (CrossHair/z3) of the whole analysis on a spelling template with symbolic argument values under a single-bit-token ideal-hash model",
}

CHECKS["C16"] = {
    "text": "Real set_store / LocalFileStore / evaluation / load code over the file-system model with a working directory and symlinked directories: for every pair of directory forms (absolute, relative, trailing slash, nested non-existing, under a symlinked parent whose target lies at another depth) with cache_objects (None, False, True, 0, -1, n), the point at which the working directory changes and the payload as solver variables: keep, load before and after chdir, load and re-evaluation in a fresh process return the kept values and the fresh process executes nothing. Two stores sharing one internal directory with different data directories, interleaved in solver-chosen order: blobs are shared (no recomputation), a path only kept through one view is unknown to the other, a re-keep through one view does not disturb the other. Counterexamples are replayed on the real OS with real symlinks and chdir.",
    "design_ref": "DESIGN.md 5-C16",
    "technique": "symbolic execution (CrossHair/z3) of the real local store configuration code over a file-system model with cwd and symlinks; real-OS replay",
}

CHECKS["C17"] = {
    "text": "Real CodecRegistry / built-in codecs / LocalFileStore.store_blob + fetch_blob over the file-system model: the content of a str (any code points) or bytes value is symbolic, and between write and read a solver-chosen sequence of up to 3 codec registrations (user codecs for str, bytes, object, as codec or file codec, one re-using the built-in reference) or a fresh process (default registry rebuilt) takes place; the value must be read back equal and of the same type, with the codec whose reference the .meta file names, and str / bytes must be stored verbatim. Plus CodecRegistry.get_codec against the documented rules (reference wins, else the type's codec, else the object codec, else DDSException) for all (type, reference) pairs after symbolic registration sequences. When the codec / store modules define module-level size constants, two further queries run the round trip with these constants scaled down to 1. Pickled values are concrete witnesses; pandas is outside.",
    "design_ref": "DESIGN.md 5-C17",
    "technique": "symbolic execution (CrossHair/z3) of the codec registry and built-in codecs over a file-system model with symbolic contents and registration sequences; real-OS replay",
}

CHECKS["C19"] = {
    "text": "Real set_store('dbfs') / CommitType.parse / DBFSStore / codecs / evaluation / load code against an in-process fake of dbutils.fs over the file-system model: (1) the commit type given as documented name, enum name or value in a solver-chosen case, None, or an unknown name - documented names accepted, unknown ones a DDSException; (2) under each commit type two (thorough: three) evaluations of a three-path pipeline whose two tracked-variable versions per step and payload are solver variables: keep returns the plain values, 'full' leaves byte-identical copies plus redirect records, 'links only' records only, 'none' nothing, load returns the latest value exactly when a record exists, also from a fresh process; (3) blobs of kind string / bytes / pickle relabelled with the legacy reference dbfs.<kind> decode to the original (symbolic) value. No real Databricks: counterexamples are replayed against the fake only.",
    "design_ref": "DESIGN.md 5-C19",
    "technique": "symbolic execution (CrossHair/z3) of the real DBFS store against a fake dbutils over a file-system model; commit-type spelling, versions per step and contents as solver variables",
}

CHECKS["C18"] = {
    "text": "(1) Kernel: dds._plotting._structure on interaction trees of up to 7 nodes, and on wide trees (root + 4 / 5 siblings, the first a kept node that later siblings reach again), whose attributes - kept or not, named arguments, shared signature at the same / another path, loads of earlier kept or committed paths - are solver variables (enumerated through the solver, exhaustive per family), against a declarative specification: acyclic; nodes = kept paths + paths loaded by kept functions; solid edge u->v iff v reaches the keep of u through non-kept nodes only; dashed edge iff v itself loads u; any other edge dotted, from an earlier sibling's head node to a keep with named arguments. (2) Real evaluation with and without dds_export_graph on 8 template entry points: same result, signatures, blobs and paths; the dot text parsed back contains every kept path and is acyclic.",
    "design_ref": "DESIGN.md 5-C18",
    "technique": "symbolic execution (CrossHair/z3) of _structure on interaction trees with symbolic attributes against a declarative graph specification; export vs no-export differential on templates",
}

NOT_APPLICABLE = {}


def main():
    props = [json.loads(l)["id"] for l in open(os.path.join(ROOT, "properties.jsonl"))]
    checks = []
    for pid in props:
        if pid not in CHECKS:
            continue
        c = CHECKS[pid]
        checks.append(
            {
                "property_id": pid,
                "quick_cmd": "bin/check %s --tier quick -q" % pid,
                "thorough_cmd": "bin/check %s --tier thorough -q" % pid,
                "evidence_file": "/verif/evidence/%s.json" % pid,
                "replay_cmd_template": "bin/replay {path}",
                "engine": "crosshair-z3",
                "level_claimed": {"category": "other", "text": c["text"], "design_ref": c["design_ref"]},
                "level_note": c.get("note", NOTE),
                "technique": c["technique"],
            }
        )
    na = [{"property_id": p, "reason": NOT_APPLICABLE.get(p, "check not built yet (work in progress; see DESIGN.md section 5 for the planned harness)")} for p in props if p not in CHECKS]
    hooks_commits = []
    m = {
        "version": 1,
        "setup_cmd": "bin/setup.sh",
        "hooks": {
            "guard": "TJHUNTER_DDS_PY_VERIF",
            "enable": "none needed: all environment models are installed from the harness by assigning module attributes; the guard name is reserved and no source commit uses it",
            "baseline_off_cmd": "cd /repo && /venv/bin/python -m pytest -ra -q -p no:cacheprovider --timeout=900 --continue-on-collection-errors",
            "source_commits": hooks_commits,
            "add_only": True,
        },
        "engines": [
            {"name": "crosshair-z3", "path": "/verif/vlib/ch.py", "serves_properties": [c["property_id"] for c in checks], "kind_free_text": "symbolic execution of the repository's Python code (CrossHair 0.0.110) with z3 5.1.0 as the deciding solver; one OS process per query, 16 in parallel; driver vlib/driver.py"}
        ],
        "checks": checks,
        "not_applicable": na,
        "notes": "Solver-based checking of the real code. Exit 0 = property held on everything explored (KNOWN-FINDING lines for recorded defects), 1 = VIOLATION (replayed on real code), 3 = harness error. known_findings.jsonl lists recorded and fixed defects.",
    }
    with open(os.path.join(ROOT, "MANIFEST.json"), "w") as f:
        json.dump(m, f, indent=1)


if __name__ == "__main__":
    main()
