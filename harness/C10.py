"""
C10 - a failing user function is never cached and leaves dds and the store clean.

Real code executed symbolically: dds._api (_eval / _eval_new_ctx / keep / eval / load), the store (memory, local over the file-system
model); the analysis of the concrete pipeline runs natively. The index of the failing user-function invocation, the exception
class and the follow-up evaluation are solver variables (realised: enumeration through the solver), the payload a symbolic string.
"""
from vlib import h, tick
from vlib.models import fsmodel, fastenv
from vlib.world import RecordingStore

h.quiet_logs()

import dds
import dds._api as api
import dds.store as dstore
from dds.structures import DDSException

import vpipes.p1 as p1
import vpipes.p3 as p3

PROPERTY = "C10"
EXPLANATION = "C10: the k-th user-function invocation of a cold evaluation raises; identity of the propagated exception, store diff, dds state and the next evaluation are checked for every k, exception class and follow-up."
STUBBED_NAMES = fsmodel.STUBBED_NAMES
ASSUMPTIONS = [fastenv.ASSUMPTION, "file-system model = POSIX as validated by the differential self-test of this run", "clock stub"]
OUTSIDE = ["pipelines other than P3 (depth 3, shared sub-node, run-time-argument keep) and P1", "failures inside dds's own analysis", "DBFS store"]
FUNCTIONS_ENCODED = ["dds._api._eval", "dds._api._eval_new_ctx", "dds._api.keep", "dds._api.eval", "dds._api.load", "dds.store.MemoryStore.*", "dds.store.LocalFileStore.*"]
BOUNDS = {"quick": {"failing invocation": "every one of the 5 invocations of the cold run", "exception classes": ["ValueError subclass", "KeyboardInterrupt", "BaseException subclass", "FileNotFoundError (an OSError, like the store's own I/O errors)"], "follow-ups": ["same pipeline repaired", "other pipeline", "the same failing evaluation again"], "stores": ["memory", "local"]}}
BOUNDS["thorough"] = dict(BOUNDS["quick"], payload="symbolic ASCII str <= 2 chars (quick: <= 1)")
LAST_DETAIL = [""]
INT_DIR, DATA_DIR = "/s/int", "/s/data"


class MyErr(ValueError):
    pass


class MyBase(BaseException):
    pass


def selftest():
    return fsmodel.selftest()


def setup_query(sel):
    h.install_clock()
    fastenv.install()


class _Rec(RecordingStore):
    def __init__(self, inner):
        RecordingStore.__init__(self, inner)
        self.stored = []
        self.requested = None

    def has_blob(self, key):
        if self.requested is None and api._eval_ctx is not None:
            self.requested = dict(api._eval_ctx.requested_paths)
        return self.inner.has_blob(key)

    def store_blob(self, key, blob, codec=None):
        self.stored.append(key)
        return self.inner.store_blob(key, blob, codec)


def fail_impl(a):
    h.enter()
    if h.blocked(**a):
        return True
    sel = h.SEL
    k = a["k"]
    ek = a["ek"]
    follow = sel["follow"] if "follow" in sel else a["follow"]
    n = 3
    tick.PAYLOAD.clear()
    tick.PAYLOAD.update({"p": a["pay"], "inner": a["pay"], "outer": ""})
    h.fresh_process()
    dds.accept_module("vpipes")
    fs = fsmodel.FS()
    fsmodel.install(fs)
    inner = dstore.MemoryStore() if sel["store"] == "memory" else dstore.LocalFileStore(INT_DIR, DATA_DIR)
    rec = _Rec(inner)
    api._store_var = rec
    exc = [MyErr("boom"), KeyboardInterrupt(), MyBase("base"), FileNotFoundError(2, "no such input")][ek]
    tick.reset()
    tick.FAIL.update({"at": k, "exc": exc, "n": 0})
    got = None
    try:
        dds.eval(p3.top, n)
        got = "returned"
    except DDSException as e:
        got = e
    except BaseException as e:
        if e is exc:
            got = e  # the exception object created above
        elif isinstance(e, Exception) and type(e).__module__ == "builtins":
            got = e  # another ordinary exception came out instead (e.g. a TypeError of the functions that were waiting)
        else:
            raise  # CrossHair's own control flow
    finally:
        tick.FAIL.update({"at": -1, "exc": None})
    failing = p3.ORDER[k]
    ok = True

    def bad(msg):
        LAST_DETAIL[0] = "failing invocation #%d (%s) raising %s: %s" % (k, failing, type(exc).__name__, msg)
        return False

    if got is not exc:
        ok = bad("dds did not propagate the same exception object (got %r)" % (got,))
    if ok and api._eval_ctx is not None:
        ok = bad("the evaluation context is still set after the failure")
    if ok and rec.requested is None:
        ok = bad("harness: signatures were not captured")
    if ok:
        sig = dict((node, rec.requested.get(path)) for node, path in p3.PATH.items())
        forbidden = [failing] + p3.WAITING[failing]
        for node in forbidden:
            if node in sig and (sig[node] in rec.stored or inner.has_blob(sig[node])):
                ok = bad("a blob was stored under the signature of %s, which did not complete" % node)
        allowed = set(sig[c] for c in p3.COMPLETED_BEFORE[failing])
        for key in rec.stored:
            if key not in allowed:
                ok = bad("a blob was stored under %s, not the signature of a completed node" % str(key)[:10])
        if rec.synced:
            ok = bad("paths were committed: %r" % (rec.synced,))
        if sel["store"] == "local" and [p for p in fs.nodes if p.startswith(DATA_DIR + "/")]:
            ok = bad("the data directory is not empty: %r" % ([p for p in fs.nodes if p.startswith(DATA_DIR + "/")],))
    if ok and follow == 2:
        # the SAME failing evaluation once more (the blobs of the completed nodes are in the store now): still nothing committed
        tick.reset()
        tick.FAIL.update({"at": k - len([c for c in p3.ORDER[:k] if c in p3.COMPLETED_BEFORE[failing]]), "exc": exc, "n": 0})
        got2 = None
        try:
            dds.eval(p3.top, n)
            got2 = "returned"
        except DDSException as e:
            got2 = e
        except BaseException as e:
            if e is exc or (isinstance(e, Exception) and type(e).__module__ == "builtins"):
                got2 = e
            else:
                raise
        finally:
            tick.FAIL.update({"at": -1, "exc": None})
        if got2 is not exc:
            ok = bad("second failing evaluation: dds did not propagate the same exception object (got %r)" % (got2,))
        if ok and api._eval_ctx is not None:
            ok = bad("second failing evaluation: the evaluation context is still set")
        if ok and rec.synced:
            ok = bad("second failing evaluation: paths were committed: %r" % (rec.synced,))
        if ok and sel["store"] == "local" and [p for p in fs.nodes if p.startswith(DATA_DIR + "/")]:
            ok = bad("second failing evaluation: the data directory is not empty: %r" % ([p for p in fs.nodes if p.startswith(DATA_DIR + "/")],))
        return h.verdict(ok)
    if ok:
        # the next evaluation in the same process
        tick.reset()
        try:
            if follow == 0:
                r = dds.eval(p3.top, n)
                want = p3.plain(n)
                if r != want["top"]:
                    ok = bad("the repaired pipeline returns %r instead of %r" % (r, want["top"]))
                should_run = [x for x in p3.ORDER if x not in p3.COMPLETED_BEFORE[failing]]
                if ok and sorted(tick.LOG) != sorted(should_run):
                    ok = bad("the next evaluation executed %r, expected exactly the nodes that had not completed %r" % (list(tick.LOG), should_run))
                if ok:
                    for path in p3.PATH.values():
                        if dds.load(path) != want[path]:
                            ok = bad("after the next evaluation dds.load(%s) = %r" % (path, dds.load(path)))
            else:
                p1.VERSION = 1
                r = dds.eval(p1.root)
                if r != p1.plain()["/out"]:
                    ok = bad("another pipeline evaluated next returns %r" % (r,))
        except DDSException as e:
            ok = bad("the next evaluation fails: %s" % str(e)[:120])
        finally:
            api._eval_ctx = None
    return h.verdict(ok)


def make_fn(fn, sel, tag):
    return h.gen_fn(tag, "fail", [("k", "int"), ("ek", "int"), ("pay", "str")], ["0 <= k <= 4", "0 <= ek <= 3", "len(pay) <= %d and pay.isascii()" % sel.get("plen", 1)], "harness.C10", "fail_impl")


def queries(tier):
    fl = ["repaired", "other", "again"]
    if tier == "thorough":
        return [{"id": "fail.%s.%s" % (s, fl[f]), "fn": "fail", "sel": {"store": s, "follow": f, "plen": 2}, "timeout": 1800} for s in ("memory", "local") for f in range(3)]
    return [{"id": "fail.%s.%s" % (s, fl[f]), "fn": "fail", "sel": {"store": s, "follow": f}, "timeout": 400} for s in ("memory", "local") for f in range(3)]


def functions_encoded():
    return FUNCTIONS_ENCODED


def replay(sel, args, fn):
    # concrete re-execution; the local store runs over the model here (store protocol on the real OS is C06 / C08's replay)
    h.SEL.clear()
    h.SEL.update(sel)
    setup_query(sel)
    ok = fail_impl(dict(args))
    return {"reproduced": not ok, "detail": LAST_DETAIL[0] if not ok else "failure leaves dds and the store clean"}
