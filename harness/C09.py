"""
C09 - dds.load always sees the latest kept value and invalidates its readers.

Same engine as C01 / C02 (real analysis + evaluation on a template program, symbolic tracked variable, ideal hash, plain twin whose
load(p) returns the value most recently produced at p in program order).

Queries
  same.<placement>     producer earlier in the same dds.eval, load at the top level / inside a kept function / in a helper / of a path kept
                       with dds.keep: value = plain value on a fresh and on a populated store, for every pair of producer values; the reader
                       is re-executed iff the signature served at the path changed.
  earlier              producer evaluated in an earlier evaluation, reader-only evaluation afterwards, producer edits in between.
  bad.<form>           read before produce (two forms) and read of a never produced path: DDS error, never another exception or a value.
"""
from vlib import h
from vlib.templates import T
import harness.C01 as base

h.quiet_logs()

PROPERTY = "C09"
EXPLANATION = "C09: placements of dds.load relative to the producer on the T9 template; the producer's tracked variable is a solver variable in every step."
STUBBED_NAMES = base.STUBBED_NAMES
ASSUMPTIONS = base.ASSUMPTIONS
OUTSIDE = base.OUTSIDE + ["load paths given by anything other than a literal (module-level path variables are covered by C04 / C11)"]
FUNCTIONS_ENCODED = base.FUNCTIONS_ENCODED + ["dds._api.load", "dds.structures_utils.FunctionIndirectInteractionUtils.*"]
BOUNDS = {
    "quick": {"placements": ["inside a kept function", "top level of the evaluated function", "helper of a kept function", "path kept with dds.keep", "one function kept under two paths"], "producer": ["earlier in the same evaluation", "earlier evaluation", "revert history + explicit load", "later / never (rejected)"], "history": "2-5 steps", "leaf": "producer's tracked int, all 32-bit values, every step"},
    "thorough": {"placements": "as quick x (body edit + revert after restart, three value steps)", "history": "up to 5 steps"},
}
LAST_DETAIL = [""]
setup_query = base.setup_query


def make_fn(fn, sel, tag):
    ps = base._leaf_params(sel)
    return h.gen_fn(tag, "hist", [(n, t) for (n, t, _p) in ps], [p for (_n, _t, p) in ps if p], "harness.C09", "hist_impl")


def _checker(sel):
    sigs = {}

    def on_step(k, step, w, r, p):
        if r[0] != "ok":
            return None
        sigs[k] = dict(w.last_sigs() or {})
        rd = step.get("reader")
        if rd and k > 0 and (k - 1) in sigs:
            name, ppath, rpath = rd
            changed = sigs[k].get(ppath) != sigs[k - 1].get(ppath)
            ran = name in r[2]
            rchanged = sigs[k].get(rpath) != sigs[k - 1].get(rpath)
            seen_before = any(sigs[j].get(rpath) == sigs[k].get(rpath) for j in sigs if j < k)
            if changed and not rchanged:
                return "step %d: %s now serves another result but the signature of its reader %s did not change" % (k, ppath, name)
            if changed and not ran and not seen_before:
                return "step %d: %s now serves another result but its reader %s was served from the store" % (k, ppath, name)
            if not changed and sigs[k - 1].get(rpath) is not None and (ran or rchanged) and not step.get("variants"):
                return "step %d: %s is unchanged but its reader %s was re-evaluated / re-keyed" % (k, ppath, name)
        return None

    return on_step


def hist_impl(a):
    h.enter()
    if h.blocked(**a):
        return True
    ok, detail, _w = base.run_history(h.SEL, a, on_step=_checker(h.SEL))
    if not ok and not h.TWIN:
        LAST_DETAIL[0] = detail
    return h.verdict(ok)


def queries(tier):
    q = base._q
    qs = []
    M = "tq.m1"
    for name, root, reader in (("kept", "root_a", ["reader", "/t9/p", "/t9/r"]), ("top", "root_b", None), ("helper", "root_c", ["reader_h", "/t9/p", "/t9/rh"]), ("keepcall", "root_d", ["reader_k", "/t9/k", "/t9/rk"]), ("twopaths", "root_f", ["reader_k2", "/t9/k2", "/t9/rk2"]), ("pathobj", "root_g", ["reader_pp", "/t9/k3", "/t9/rpp"])):
        st = {"style": "eval", "entry": [M, root]}
        if reader:
            st["reader"] = reader
        qs.append(q("same.%s" % name, "T9", [dict(st), dict(st)], timeout=400))
    st = {"style": "eval", "entry": [M, "root_a"], "reader": ["reader", "/t9/p", "/t9/r"]}
    qs.append(q("same.kept.edit", "T9", [dict(st, variants={M: "a"}), dict(st, variants={M: "b"}, leaves_from=0)], timeout=400))
    qs.append(q("same.kept.restart", "T9", [dict(st), dict(st, restart=True)], timeout=400))
    # producer in an earlier evaluation
    P = {"style": "call", "entry": [M, "prod"]}
    R = {"style": "eval", "entry": [M, "root_e"]}
    qs.append(q("earlier", "T9", [dict(P), dict(R, leaves_from=0), dict(P), dict(R, leaves_from=2)], timeout=600))
    qs.append(q("earlier.stale-producer", "T9", [dict(P), dict(R, leaves_from=0), dict(R)], timeout=600))
    # revert: the producer is served from the store on its third run, the path must point back to the first content
    L = {"style": "load", "path": "/t9/p"}
    qs.append(q("earlier.revert", "T9", [dict(P), dict(P), dict(P, leaves_from=0), dict(L, leaves_from=0), dict(R, leaves_from=0)], timeout=600))
    if tier == "thorough":
        for name, root, reader in (("top", "root_b", None), ("helper", "root_c", ["reader_h", "/t9/p", "/t9/rh"]), ("keepcall", "root_d", ["reader_k", "/t9/k", "/t9/rk"]), ("twopaths", "root_f", ["reader_k2", "/t9/k2", "/t9/rk2"])):
            st = {"style": "eval", "entry": [M, root]}
            if reader:
                st["reader"] = reader
            qs.append(q("same.%s.edit" % name, "T9", [dict(st, variants={M: "a"}), dict(st, variants={M: "b"}, leaves_from=0), dict(st, variants={M: "a"}, restart=True)], timeout=900))
            qs.append(q("same.%s.three" % name, "T9", [dict(st), dict(st, restart=True), dict(st)], timeout=1500))
        qs.append(q("earlier.edit", "T9", [dict(P, variants={M: "a"}), dict(R, leaves_from=0), dict(P, variants={M: "b"}, leaves_from=0), dict(R, leaves_from=0), dict(L, leaves_from=0)], timeout=1500))
    # ill-formed
    for name, root in (("before", "bad_before"), ("inline", "bad_inline"), ("never", "bad_never")):
        qs.append(q("bad.%s.fresh" % name, "T9", [{"style": "eval", "entry": [M, root], "expect_dds_error": True}], timeout=200))
        if name != "never":
            qs.append(q("bad.%s.populated" % name, "T9", [dict(P), {"style": "eval", "entry": [M, root], "expect_dds_error": True}], timeout=300))
    return qs


def functions_encoded():
    return FUNCTIONS_ENCODED


def replay(sel, args, fn):
    import hashlib
    import struct
    import dds.fun_args as fa

    fa.hashlib = hashlib
    fa.struct = struct
    ok, detail, _w = base.run_history(sel, args, on_step=_checker(sel))
    return {"reproduced": not ok, "detail": ("template T9, real hashing: " + detail) if not ok else "real hashing: loads return the latest kept values"}
