"""
C08 - stores round-trip blobs and paths; distinct paths never alias or escape.

Real code executed symbolically: dds.store.MemoryStore / LocalFileStore (all methods), dds._lru_store.LRUCacheStore,
dds.codecs.builtins (string / bytes / pickle codecs), dds.codec.CodecRegistry.get_codec,
dds.structures_utils.DDSPathUtils.create - the local store over the file-system model.

Queries
  seq.<store>.<op0>.<op1>   lock-step of the real store against a dictionary model under a symbolic operation
                            sequence (store / has / fetch blob, sync / fetch paths, reopen), symbolic blob values.
  alias.<lp>.<lq>           local store: two paths with different segment sequences (neither a prefix of the other)
                            committed to different keys resolve to their own key; every node created lies inside
                            realpath(data_dir). Segments are solver-chosen indices into a confusable alphabet.
  loc.<n>                   LocalFileStore._path_location on two fully symbolic path strings (<= n characters after the
                            leading slash): accepted paths with different segment sequences get different locations, and
                            every location is data_dir + segments without '..' (no stripping / folding / escaping).
  create                    DDSPathUtils.create accepts exactly the absolute paths.
"""
import posixpath
from collections import OrderedDict

from vlib import h
from vlib.models import fsmodel

h.quiet_logs()

import dds.store as dstore
import dds._lru_store as lru
import dds.codec as dcodec
from dds.structures import DDSException, DDSErrorCode
from dds.structures_utils import DDSPathUtils

PROPERTY = "C08"
EXPLANATION = "C08: real store classes vs a dictionary model; the local store runs over the file-system model (validated against the OS by a differential self-test on every run)."
STUBBED_NAMES = fsmodel.STUBBED_NAMES
FUNCTIONS_ENCODED = [
    "dds.store.MemoryStore.*", "dds.store.LocalFileStore.__init__", "dds.store.LocalFileStore.has_blob", "dds.store.LocalFileStore.fetch_blob", "dds.store.LocalFileStore.store_blob",
    "dds.store.LocalFileStore._path_location", "dds.store.LocalFileStore.sync_paths", "dds.store.LocalFileStore.fetch_paths", "dds._lru_store.LRUCacheStore.*", "dds.codecs.builtins.StringLocalFileCodec.*", "dds.codecs.builtins.BytesFileCodec.*",
    "dds.codecs.builtins.PickleLocalFileCodec.*", "dds.codec.CodecRegistry.get_codec", "dds.structures_utils.DDSPathUtils.create",
]
KEYS = ["aa11", "bb22"]
SEQ_PATHS = ["/p", "/d/e/r"]
ALPHA = ["a", "b", "ab", "..", ".", "a.b", "a b", "é"]
BOUNDS = {
    "quick": {"sequences": "every sequence of 3 operations over 2 keys x 2 paths (1 and 3 segments) from the empty store, partitioned by the first two opcodes; stores: memory, local", "values": "one value per key: symbolic ASCII str (<= 1 char) for k0; None or 2 bytes for k1 (symbolic selector)", "alias": "pairs of paths of 1..3 segments over {a, b, ab, .., .} (indices chosen by the solver; the two 3-segment paths over {a, b, ab})", "loc": "two symbolic path strings of <= 3 characters each after the leading slash (any code point)", "create": "every str of length <= 3"},
    "thorough": {"order": "the whole quick tier first, then the deeper queries below as far as the wall budget of the tier allows (the evidence lists what was not run)", "sequences": "every sequence of 4 operations, partitioned by the first two opcodes; stores: memory, local, local+cache", "values": "as quick", "alias": "pairs of paths of 1..3 segments over {a, b, ab, .., ., a.b, 'a b', e-acute}", "loc": "two symbolic path strings of <= 4 characters each", "create": "every str of length <= 4"},
}
OUTSIDE = ["paths with empty segments (doubled / trailing slashes)", "fully symbolic path strings through the whole store (the segment alphabet is the bound there; loc.* covers the path -> location mapping on symbolic strings)", "a path committed to a key whose blob was never stored (dds commits paths only after storing)", "DBFS store (see C19)"]
ASSUMPTIONS = ["file-system model = POSIX semantics as validated by the differential self-test", "content-addressed use: one value per key", "clock stub: meta timestamp is a constant"]
BUDGET_S = {"thorough": 1500}  # wall budget of the thorough tier: queries not started by then are reported as not run
THOROUGH_INCLUDES_QUICK = True  # thorough = the quick queries first, then the deeper ones within the wall budget
LAST_DETAIL = [""]
OPS = ["store", "has", "fetch", "sync", "fpaths", "reopen"]


def selftest():
    return fsmodel.selftest()


def setup_query(sel):
    h.install_clock()


def _mk_store(kind, fs):
    inner = dstore.LocalFileStore("/s/int", "/s/data") if kind != "memory" else None
    if kind == "memory":
        return dstore.MemoryStore()
    if kind == "local":
        return inner
    return lru.LRUCacheStore(inner, 2)


class _Exc:
    def __init__(self, e):
        self.t = "DDSException"

    def __repr__(self):
        return "raised DDSException"


def _apply(store, op, ki, pi, vals):
    try:
        if op == 0:
            store.store_blob(KEYS[ki], vals[ki], None)
            return "ok"
        if op == 1:
            return bool(store.has_blob(KEYS[ki]))
        if op == 2:
            return store.fetch_blob(KEYS[ki])
        if op == 3:
            store.sync_paths(OrderedDict([(SEQ_PATHS[pi], KEYS[ki])]))
            return "ok"
        if op == 4:
            return list(store.fetch_paths([SEQ_PATHS[pi]]).items())
    except DDSException as e:
        return _Exc(e)
    raise AssertionError(op)


def _model_apply(model, op, ki, pi, vals):
    blobs, paths = model
    if op == 0:
        blobs[KEYS[ki]] = vals[ki]
        return "ok"
    if op == 1:
        return KEYS[ki] in blobs
    if op == 2:
        return blobs.get(KEYS[ki])
    if op == 3:
        paths[SEQ_PATHS[pi]] = KEYS[ki]
        return "ok"
    if op == 4:
        if SEQ_PATHS[pi] in paths:
            return [(SEQ_PATHS[pi], paths[SEQ_PATHS[pi]])]
        return _Exc(None)


def _same(a, b):
    if isinstance(a, _Exc) or isinstance(b, _Exc):
        return isinstance(a, _Exc) and isinstance(b, _Exc)
    if a is None or b is None:
        return a is None and b is None
    return type(a) == type(b) and a == b


def seq_impl(a):
    h.enter()
    sel = h.SEL
    n = sel["n"]
    ops = [sel["op0"], sel["op1"], a.get("o2", 1), a.get("o3", 1)][:n]
    kis = [a["k0"], a["k1"], a.get("k2", 0), a.get("k3", 0)][:n]
    pis = [a["p0"], a["p1"], a.get("p2", 0), a.get("p3", 0)][:n]
    for j in range(n):
        if ops[j] in (0, 1, 2) and pis[j] != 0:
            return True  # blob operations take no path: pinned
        if ops[j] in (4, 5) and kis[j] != 0:
            return True
        if ops[j] == 5 and pis[j] != 0:
            return True
    if h.blocked(**a):
        return True
    v1 = None if a["v1k"] == 0 else b"\x00\xff"
    vals = [a["v0"], v1]
    h.fresh_process()
    fs = fsmodel.FS()
    fsmodel.install(fs)
    kind = sel["store"]
    store = _mk_store(kind, fs)
    model = ({}, {})
    ok = True
    for j in range(n):
        op = ops[j]
        if op == 5:
            h.fresh_process()
            if kind != "memory":
                store = _mk_store(kind, fs)
            continue
        if op == 3 and KEYS[kis[j]] not in model[0]:
            return True  # dds commits a path only after the blob was stored
        r = _apply(store, op, kis[j], pis[j], vals)
        m = _model_apply(model, op, kis[j], pis[j], vals)
        if not _same(r, m):
            LAST_DETAIL[0] = "step %d (%s %s %s): store answered %r, model %r" % (j, OPS[op], KEYS[kis[j]], SEQ_PATHS[pis[j]], r, m)
            ok = False
            break
    if ok and kind != "memory":
        ok = _contained(fs, "/s/data", "/s/int")
    return h.verdict(ok)


def _contained(fs, data_dir, int_dir):
    d = fs._realpath(data_dir)
    i = fs._realpath(int_dir)
    for p in fs.created:
        if p == d or p == i or p == "/s":
            continue
        if not (p.startswith(d + "/") or p.startswith(i + "/")):
            LAST_DETAIL[0] = "node %s created outside %s" % (p, d)
            return False
    return True


def _path_of(idx, n):
    return "/" + "/".join(ALPHA[i] for i in idx[:n])


def alias_impl(a):
    h.enter()
    sel = h.SEL
    lp, lq, na = sel["lp"], sel["lq"], sel["alpha"]
    if "x0" in sel:
        a = dict(a)
        a["x0"] = sel["x0"]
    if "x1" in sel:
        a = dict(a)
        a["x1"] = sel["x1"]
    pi = [a.get("x%d" % i, 0) for i in range(3)]
    qi = [a.get("y%d" % i, 0) for i in range(3)]
    pseg = [ALPHA[i] for i in pi[:lp]]
    qseg = [ALPHA[i] for i in qi[:lq]]
    if pseg == qseg:
        return True
    m = min(lp, lq)
    if pseg[:m] == qseg[:m]:
        return True  # one is a segment-prefix of the other: excluded by the property (C11 rejects it)
    if h.blocked(**a):
        return True
    p = "/" + "/".join(pseg)
    q = "/" + "/".join(qseg)
    h.fresh_process()
    fs = fsmodel.FS()
    fsmodel.install(fs)
    store = dstore.LocalFileStore("/s/int", "/s/data")
    store.store_blob(KEYS[0], "v0", None)
    store.store_blob(KEYS[1], "v1", None)
    res = []
    for (path, key) in ((p, KEYS[0]), (q, KEYS[1])):
        try:
            store.sync_paths(OrderedDict([(path, key)]))
            res.append(True)
        except DDSException:
            res.append(False)  # a coded refusal (e.g. of '.' / '..' segments) creates nothing
    ok = _contained(fs, "/s/data", "/s/int")
    if ok:
        for (path, key, committed) in ((p, KEYS[0], res[0]), (q, KEYS[1], res[1])):
            if not committed:
                continue
            try:
                got = store.fetch_paths([path]).get(path)
            except DDSException:
                got = None
            if got != key:
                LAST_DETAIL[0] = "after committing %s -> %s and %s -> %s, %s resolves to %r" % (p, KEYS[0], q, KEYS[1], path, got)
                ok = False
    return h.verdict(ok)


def loc_impl(a):
    h.enter()
    if h.blocked(**a):
        return True
    p, q = "/" + a["p"], "/" + a["q"]
    store = object.__new__(dstore.LocalFileStore)
    store._root, store._data_root = "/s/int", "/s/data"
    locs = []
    for path in (p, q):
        try:
            locs.append(store._path_location(path))
        except DDSException:
            locs.append(None)  # coded refusal
    ok = True
    for path, loc in zip((p, q), locs):
        if loc is None:
            continue
        if not loc.startswith("/s/data/") or any(seg in ("..", ".") for seg in loc.split("/")):
            LAST_DETAIL[0] = "path %r is located at %r: not inside the data directory" % (path, loc)
            ok = False
    if ok and locs[0] is not None and locs[1] is not None:
        sp = [x for x in p.split("/") if x]
        sq = [x for x in q.split("/") if x]
        if sp != sq and [x for x in locs[0].split("/") if x] == [x for x in locs[1].split("/") if x]:
            LAST_DETAIL[0] = "paths %r and %r share the location %r" % (p, q, locs[0])
            ok = False
    return h.verdict(ok)


def create_impl(a):
    h.enter()
    s = a["s"]
    if h.blocked(**a):
        return True
    try:
        r = DDSPathUtils.create(s)
        ok = s.startswith("/") and r == s
    except DDSException as e:
        ok = (not s.startswith("/")) and e.error_code == DDSErrorCode.PATH_NOT_ABSOLUTE
    return h.verdict(ok)


def make_fn(fn, sel, tag):
    if fn == "seq":
        n = sel["n"]
        params = [("k0", "int"), ("k1", "int"), ("p0", "int"), ("p1", "int")]
        pres = ["0 <= k0 <= 1 and 0 <= k1 <= 1", "0 <= p0 <= 1 and 0 <= p1 <= 1"]
        for j in range(2, n):
            params += [("o%d" % j, "int"), ("k%d" % j, "int"), ("p%d" % j, "int")]
            pres.append("0 <= o%d <= 5 and 0 <= k%d <= 1 and 0 <= p%d <= 1" % (j, j, j))
        params += [("v0", "str"), ("v1k", "int")]
        pres += ["len(v0) <= 1 and v0.isascii()", "0 <= v1k <= 1"]
        return h.gen_fn(tag, "seq", params, pres, "harness.C08", "seq_impl")
    if fn == "alias":
        params = [("x%d" % i, "int") for i in range(sel["lp"]) if ("x%d" % i) not in sel] + [("y%d" % i, "int") for i in range(sel["lq"])]
        pres = ["0 <= %s < %d" % (n, sel["alpha"]) for (n, _t) in params]
        return h.gen_fn(tag, "alias", params, pres, "harness.C08", "alias_impl")
    if fn == "loc":
        return h.gen_fn(tag, "loc", [("p", "str"), ("q", "str")], ["len(p) <= %d and len(q) <= %d" % (sel["len"], sel["len"])], "harness.C08", "loc_impl")
    if fn == "create":
        return h.gen_fn(tag, "create", [("s", "str")], ["len(s) <= %d" % sel["len"]], "harness.C08", "create_impl")
    raise KeyError(fn)


def queries(tier):
    qs = []
    n = 3 if tier == "quick" else 4
    for store in ("memory", "local", "lru"):
        for op0 in range(6):
            for op1 in range(6):
                if op0 == 3 or (op1 == 3 and op0 != 0):
                    continue  # a path is only committed after its blob was stored: sync needs an earlier store
                if tier == "quick" and (store == "lru" or (op0 in (1, 2, 4, 5) and store != "local")):
                    continue  # quick: the cache wrapper is C12's subject; read-only first operations only against the local store
                qs.append({"id": "seq.%s.%s.%s" % (store, OPS[op0], OPS[op1]), "fn": "seq", "sel": {"store": store, "n": n, "op0": op0, "op1": op1}, "timeout": 300 if tier == "quick" else 1500})
    na = 5 if tier == "quick" else 8
    for lp in (1, 2, 3):
        for lq in (1, 2, 3):
            if lq < lp:
                continue
            alpha = 3 if (tier == "quick" and lp + lq == 6) else na  # quick: the two longest paths range over {a, b, ab} only
            if lp + lq >= 5 and lp >= 2:
                for x0 in range(alpha):
                    for x1 in range(alpha):
                        qs.append({"id": "alias.%d.%d.x%d%d" % (lp, lq, x0, x1), "fn": "alias", "sel": {"lp": lp, "lq": lq, "alpha": alpha, "x0": x0, "x1": x1}, "timeout": 400 if tier == "quick" else 3000})
            elif lp + lq >= 4:
                for x0 in range(alpha):
                    qs.append({"id": "alias.%d.%d.x%d" % (lp, lq, x0), "fn": "alias", "sel": {"lp": lp, "lq": lq, "alpha": alpha, "x0": x0}, "timeout": 400 if tier == "quick" else 3000})
            else:
                qs.append({"id": "alias.%d.%d" % (lp, lq), "fn": "alias", "sel": {"lp": lp, "lq": lq, "alpha": alpha}, "timeout": 400 if tier == "quick" else 3000})
    qs.append({"id": "loc.%d" % (3 if tier == "quick" else 4), "fn": "loc", "sel": {"len": 3 if tier == "quick" else 4}, "timeout": 300 if tier == "quick" else 2400})
    qs.append({"id": "create", "fn": "create", "sel": {"len": 3 if tier == "quick" else 4}, "timeout": 120})
    return qs


def functions_encoded():
    return FUNCTIONS_ENCODED


# ---------------------------------------------------------------------------
# replay on the real OS (temporary directory), real codecs, no model


def replay(sel, args, fn):
    import os
    import shutil
    import tempfile

    fsmodel.uninstall()
    if fn == "alias":
        lp, lq = sel["lp"], sel["lq"]
        args = dict(args)
        if "x0" in sel:
            args["x0"] = sel["x0"]
        if "x1" in sel:
            args["x1"] = sel["x1"]
        pseg = [ALPHA[args.get("x%d" % i, 0)] for i in range(lp)]
        qseg = [ALPHA[args.get("y%d" % i, 0)] for i in range(lq)]
        p, q = "/" + "/".join(pseg), "/" + "/".join(qseg)
    if fn == "loc":
        p, q = "/" + args["p"], "/" + args["q"]
        if "\x00" in p + q:
            return {"reproduced": False, "detail": "NUL in a path cannot be replayed on the real OS"}
    if fn in ("alias", "loc"):
        root = os.path.realpath(tempfile.mkdtemp(prefix="verif-c08-"))
        try:
            sandbox = os.path.join(root, "sandbox")
            os.makedirs(sandbox)
            data, internal = os.path.join(sandbox, "data"), os.path.join(sandbox, "int")
            store = dstore.LocalFileStore(internal, data)
            store.store_blob(KEYS[0], "v0", None)
            store.store_blob(KEYS[1], "v1", None)
            before = set(_tree(root))
            done = []
            for (path, key) in ((p, KEYS[0]), (q, KEYS[1])):
                try:
                    store.sync_paths(OrderedDict([(path, key)]))
                    done.append((path, key))
                except DDSException:
                    pass
                except OSError as e:
                    return {"reproduced": True, "detail": "LocalFileStore.sync_paths({%r: ...}) fails with %s instead of committing the path or refusing it with a DDS error" % (path, type(e).__name__)}
            after = set(_tree(root))
            for new in sorted(after - before):
                if not (new.startswith(data + os.sep) or new.startswith(internal + os.sep)):
                    return {"reproduced": True, "detail": "LocalFileStore(data_dir=%s).sync_paths({%r, %r}) created %s outside the data directory" % (data, p, q, new)}
            for (path, key) in done:
                try:
                    got = store.fetch_paths([path]).get(path)
                except DDSException as e:
                    got = "DDSException"
                if got != key:
                    return {"reproduced": True, "detail": "real LocalFileStore: committed %s -> %s and %s -> %s; fetch_paths(%s) = %r" % (p, KEYS[0], q, KEYS[1], path, got)}
            return {"reproduced": False, "detail": "real store keeps %s and %s apart" % (p, q)}
        finally:
            shutil.rmtree(root, ignore_errors=True)
    if fn == "seq" and sel["store"] != "memory":
        root = os.path.realpath(tempfile.mkdtemp(prefix="verif-c08-"))
        try:
            h.install_clock()
            n = sel["n"]
            a = args
            ops = [sel["op0"], sel["op1"], a.get("o2", 1), a.get("o3", 1)][:n]
            kis = [a["k0"], a["k1"], a.get("k2", 0), a.get("k3", 0)][:n]
            pis = [a["p0"], a["p1"], a.get("p2", 0), a.get("p3", 0)][:n]
            vals = [a["v0"], None if a["v1k"] == 0 else b"\x00\xff"]

            def mk():
                inner = dstore.LocalFileStore(os.path.join(root, "int"), os.path.join(root, "data"))
                return inner if sel["store"] == "local" else lru.LRUCacheStore(inner, 2)

            store = mk()
            model = ({}, {})
            for j in range(n):
                if ops[j] == 5:
                    h.fresh_process()
                    store = mk()
                    continue
                r = _apply(store, ops[j], kis[j], pis[j], vals)
                m = _model_apply(model, ops[j], kis[j], pis[j], vals)
                if not _same(r, m):
                    return {"reproduced": True, "detail": "real %s store, step %d (%s %s %s): answered %r, dictionary model %r" % (sel["store"], j, OPS[ops[j]], KEYS[kis[j]], SEQ_PATHS[pis[j]], r, m)}
            return {"reproduced": False, "detail": "real store agrees with the dictionary model"}
        finally:
            shutil.rmtree(root, ignore_errors=True)
    return None


def _tree(root):
    import os

    out = []
    for dp, dn, fn in os.walk(root):
        for x in dn + fn:
            out.append(os.path.join(dp, x))
    return out
