"""
C15 - restricting the stages makes an evaluation a side-effect-free dry run.

Real code executed symbolically: dds._api._parse_stages, dds._api._eval / _eval_new_ctx (stage gates), stores (memory, local over the
file-system model); the analysis of the concrete pipeline runs natively.

Queries
  parse.<n>       _parse_stages on a list of n elements: which stage each element names, its spelling (enum member / name in lower,
                  upper, mixed case / value) and, for unknown names, the string itself are solver variables. Prefixes of the stage order
                  are accepted in every spelling, everything else ends in a DDSException - never a KeyError / AttributeError.
  run.<store>     for every prefix length and spelling, on a cold and on a committed store: without EVAL - no user code, no blob, no
                  path, returns None; without PATH_COMMIT - blobs may appear, the path table is unchanged; signatures equal those of an
                  unrestricted analysis; a later unrestricted evaluation returns the plain values and commits.
"""
from vlib import h, tick
from vlib.models import fsmodel, fastenv
from vlib.world import RecordingStore

h.quiet_logs()

import dds
import dds._api as api
import dds.store as dstore
from dds.structures import DDSException, ProcessingStage

import vpipes.p1 as p1

PROPERTY = "C15"
EXPLANATION = "C15: stage-list parsing on symbolic lists and the stage gates of the evaluation for every prefix / spelling / store pre-state."
STUBBED_NAMES = fsmodel.STUBBED_NAMES
ASSUMPTIONS = [fastenv.ASSUMPTION, "file-system model = POSIX as validated by the differential self-test of this run", "clock stub"]
OUTSIDE = ["pipelines other than P1 (nested keep)", "DBFS store"]
FUNCTIONS_ENCODED = ["dds._api._parse_stages", "dds._api._eval", "dds._api._eval_new_ctx", "dds.structures.ProcessingStage.all_phases", "dds.store.MemoryStore.*", "dds.store.LocalFileStore.*"]
BOUNDS = {"quick": {"parse": "lists of 0..5 elements; each element one of the 5 stages in 5 spellings (lists of 3..5 elements: one spelling per query), or one of 14 adversarial non-stage values (enum attribute names, near misses, non-str); elements after the first invalid one are pinned", "run": "prefix length 0..5 x 3 spellings x 6 store pre-states (cold; the other version committed; all blobs of the evaluated version present but the paths serving the other version; up to date; the last two also with the root itself kept, so that the root's own blob exists) x {memory, local}"}}
BOUNDS["thorough"] = dict(BOUNDS["quick"], payload="symbolic ASCII str <= 2 chars in run.* (quick: <= 1)")
LAST_DETAIL = [""]
ORDER = ProcessingStage.all_phases()
INT_DIR, DATA_DIR = "/s/int", "/s/data"


def selftest():
    return fsmodel.selftest()


def setup_query(sel):
    h.install_clock()
    fastenv.install()


def _spell(i, s):
    st = ORDER[i]
    if s == 0:
        return st
    if s == 1:
        return st.name.lower()
    if s == 2:
        return st.name
    if s == 3:
        return st.name.capitalize()
    return st.value


UNKNOWN = ["", "analysis ", "ALL_PHASES", "all_phases", "name", "value", "__class__", "mro", "_value_", "EVAL_", "eval\n", "\u00c9VAL", 3, None]


def parse_impl(a):
    h.enter()
    if h.blocked(**a):
        return True
    n = h.SEL["n"]
    fixed_sp = h.SEL.get("sp")
    lst = []
    valid = True
    for j in range(n):
        i, s = a["i%d" % j], (fixed_sp if fixed_sp is not None else a["s%d" % j])
        if not valid and (i != 0 or (fixed_sp is None and s != 0)):
            return True  # positions after the first invalid element are pinned: they cannot matter
        if i == 5:
            lst.append(UNKNOWN[a["u%d" % j]])
            valid = False
        else:
            if a["u%d" % j] != 0:
                return True
            lst.append(_spell(i, s))
            if i != j:
                valid = False
    try:
        r = api._parse_stages(lst)
        ok = valid and r == ORDER[:n]
        if not ok:
            LAST_DETAIL[0] = "_parse_stages(%r) returned %r" % (lst, r)
    except DDSException:
        ok = not valid
        if not ok:
            LAST_DETAIL[0] = "_parse_stages(%r) rejected a prefix of the stage order" % (lst,)
    except Exception as e:
        ok = False
        LAST_DETAIL[0] = "_parse_stages(%r) raised %s instead of a DDSException" % (lst, type(e).__name__)
    return h.verdict(ok)


class _Rec(RecordingStore):
    def __init__(self, inner):
        RecordingStore.__init__(self, inner)
        self.stored = []
        self.requested = None

    def has_blob(self, key):
        if api._eval_ctx is not None and api._eval_ctx.requested_paths:
            self.requested = dict(api._eval_ctx.requested_paths)
        return self.inner.has_blob(key)

    def store_blob(self, key, blob, codec=None):
        self.stored.append(key)
        return self.inner.store_blob(key, blob, codec)


PRE_HISTORY = [[], [1], [2, 1], [2], [2, 1], [2]]
PRE_NAMES = ["cold", "version 1 committed", "version 2 then version 1 committed", "version 2 committed", "version 2 then version 1 kept at /top", "version 2 kept at /top"]


def run_impl(a):
    h.enter()
    if h.blocked(**a):
        return True
    sel = h.SEL
    n, sp, pre = a["n"], a["sp"], sel["pre"]
    tick.PAYLOAD.clear()
    tick.PAYLOAD.update({"inner": a["pay"], "outer": ""})
    h.fresh_process()
    dds.accept_module("vpipes")
    fs = fsmodel.FS()
    fsmodel.install(fs)
    inner = dstore.MemoryStore() if sel["store"] == "memory" else dstore.LocalFileStore(INT_DIR, DATA_DIR)
    rec = _Rec(inner)
    api._store_var = rec
    ok = True

    def bad(msg):
        LAST_DETAIL[0] = "stages=%d first stages (spelling %d), %s store: %s" % (n, sp, PRE_NAMES[pre], msg)
        return False

    # pre-state: 0 cold; 1 version 1 committed; 2 version 2 and then version 1 committed (every blob of the version about to be
    # evaluated is already in the store while the paths serve the other version); 3 version 2 committed (everything up to date)
    # 4, 5: as 2, 3 but the root itself was kept (dds.keep("/top", root)), so that the blob of the root's own signature exists too
    for v in PRE_HISTORY[pre]:
        p1.VERSION = v
        if pre >= 4:
            dds.keep("/top", p1.root)
        else:
            dds.eval(p1.root)
    p1.VERSION = 2
    want = p1.plain()
    # reference: signatures of an unrestricted analysis (captured from a full run against a scratch store)
    scratch = _Rec(dstore.MemoryStore())
    api._store_var = scratch
    dds.eval(p1.root)
    ref_sigs = dict(scratch.requested or {})
    api._store_var = rec
    rec.stored, rec.synced, rec.requested = [], [], None
    snap_paths = dict((q, _load(q)) for q in ("/out", "/d/in"))
    stages = [_spell(j, sp) for j in range(n)]
    tick.reset()
    try:
        r = dds.eval(p1.root, dds_stages=stages)
    except DDSException as e:
        return h.verdict(bad("the restricted evaluation raised %s" % str(e)[:100]))
    finally:
        api._eval_ctx = None
    has_eval = n >= 3
    has_commit = n >= 5
    if rec.requested is not None and rec.requested != ref_sigs:
        ok = bad("signatures differ from an unrestricted analysis")
    if ok and not has_eval:
        if tick.LOG or rec.stored or rec.synced or r is not None:
            ok = bad("analysis-only run executed %r, stored %d blobs, committed %r, returned %r" % (list(tick.LOG), len(rec.stored), rec.synced, r))
    if ok and has_eval and r != want["/out"]:
        ok = bad("returned %r instead of %r" % (r, want["/out"]))
    if ok and not has_commit:
        if rec.synced:
            ok = bad("paths were committed without the path_commit stage: %r" % (rec.synced,))
        for q, v in snap_paths.items():
            if ok and _load(q) != v:
                ok = bad("path %s changed from %r to %r" % (q, v, _load(q)))
    if ok:
        # a later unrestricted evaluation
        tick.reset()
        try:
            r2 = dds.eval(p1.root)
        finally:
            api._eval_ctx = None
        if r2 != want["/out"]:
            ok = bad("the later full evaluation returns %r" % (r2,))
        for q in ("/out", "/d/in"):
            if ok and _load(q) != ("ok", want[q]):
                ok = bad("after the later full evaluation dds.load(%s) = %r" % (q, _load(q)))
    return h.verdict(ok)


def _load(path):
    try:
        return ("ok", dds.load(path))
    except DDSException:
        return ("missing", None)


def make_fn(fn, sel, tag):
    if fn == "parse":
        n = sel["n"]
        params, pres = [], []
        for j in range(n):
            params += [("i%d" % j, "int"), ("u%d" % j, "int")]
            pres += ["0 <= i%d <= 5 and 0 <= u%d < %d" % (j, j, len(UNKNOWN))]
            if sel.get("sp") is None:
                params += [("s%d" % j, "int")]
                pres += ["0 <= s%d <= 4" % j]
        return h.gen_fn(tag, "parse", params, pres, "harness.C15", "parse_impl")
    return h.gen_fn(tag, "run", [("n", "int"), ("sp", "int"), ("pay", "str")], ["0 <= n <= 5", "0 <= sp <= 2", "len(pay) <= %d and pay.isascii()" % sel.get("plen", 1)], "harness.C15", "run_impl")


def queries(tier):
    qs = [{"id": "parse.%d" % n, "fn": "parse", "sel": {"n": n}, "timeout": 400} for n in range(0, 3)]
    qs += [{"id": "parse.%d.sp%d" % (n, sp), "fn": "parse", "sel": {"n": n, "sp": sp}, "timeout": 400} for n in (3, 4, 5) for sp in range(5)]
    qs += [{"id": "run.%s.pre%d" % (s, pre), "fn": "run", "sel": dict({"store": s, "pre": pre}, **({"plen": 2} if tier == "thorough" else {})), "timeout": 400 if tier == "quick" else 1800} for s in ("memory", "local") for pre in range(6)]
    return qs


def functions_encoded():
    return FUNCTIONS_ENCODED
