"""
C07 - processes sharing a local store never observe partial or foreign results.

Real code executed symbolically: dds._api.set_store / eval / keep / load / _eval / _eval_new_ctx, dds.store.LocalFileStore
(all methods), dds.codecs.builtins - two simulated processes over one file-system model under the replay scheduler;
which process runs first and the switch points (pre-emptions) are solver variables, every write is two steps.

Scenarios
  WW   two processes evaluate the same pipeline on a cold store whose directories do not exist yet
       (store creation race, same blobs, same paths).
  WR   a writer evaluates changed code (version 2) over a store committed at version 1, while a reader loads the
       committed paths: every load returns the old or the new complete value.
  WW2  two processes share the internal directory and use different data directories.
After both finished, a fresh process evaluates without executing anything and loads the values.
"""
from vlib import h, tick
from vlib.models import fsmodel, fastenv, sched

h.quiet_logs()

import dds
import dds._api as api
from dds.structures import DDSException

import vpipes.p1 as p1

PROPERTY = "C07"
EXPLANATION = "C07: all interleavings up to a pre-emption bound, at file-system-operation granularity (each write split in two), of two simulated processes on one file-system model; first process and switch points are solver variables."
STUBBED_NAMES = fsmodel.STUBBED_NAMES
FUNCTIONS_ENCODED = [
    "dds._api.set_store", "dds._api._eval", "dds._api._eval_new_ctx", "dds._api.load", "dds.store.LocalFileStore.__init__", "dds.store.LocalFileStore.has_blob", "dds.store.LocalFileStore.fetch_blob",
    "dds.store.LocalFileStore.store_blob", "dds.store.LocalFileStore.sync_paths", "dds.store.LocalFileStore.fetch_paths", "dds.store.LocalFileStore._tmp_name", "dds.store.LocalFileStore._path_location",
    "dds.codecs.builtins.StringLocalFileCodec.*", "dds.codec.CodecRegistry.get_codec",
]
ASSUMPTIONS = [
    "each primitive file-system operation (stat, mkdir, create/truncate, half of a write, unlink, symlink, rename, read of a whole file) is atomic, as in POSIX on a local file system; no NFS semantics",
    "distinct processes have distinct pids (same host)",
    "file-system model = POSIX as validated by the differential self-test of this run",
    fastenv.ASSUMPTION,
    "a simulated process is a deterministic function of the results of its file-system operations (replay scheduler)",
]
OUTSIDE = ["more pre-emptions than the bound", "three or more processes (thorough: none yet)", "pre-emption inside a primitive operation", "threads inside one process"]
BOUNDS = {
    "quick": {"processes": 2, "preemptions": "1 switch point anywhere (either process first)", "write granularity": "each write = 2 steps (split at half)", "payload": "symbolic ASCII str <= 1 char"},
    "thorough": {"processes": 2, "preemptions": "all scenarios: 1 switch point anywhere (as quick), then 2 switch points anywhere in 16 chunks per scenario and first process, as many chunks as the wall budget of the tier allows (the evidence lists the chunks not run)", "write granularity": "each write = 2 steps", "payload": "symbolic ASCII str <= 1 char"},
}
BUDGET_S = {"thorough": 1500}  # wall budget of the thorough tier: queries not started by then are reported as not run
LAST_DETAIL = [""]
INT_DIR = "/s/x/int"


def selftest():
    return fsmodel.selftest()


def setup_query(sel):
    h.install_clock()
    fastenv.install()


def _body(action, version, data_dir):
    def body(p):
        h.fresh_process()
        dds.accept_module("vpipes")
        p1.VERSION = version
        tick.reset()
        try:
            api.set_store("local", INT_DIR, data_dir, None, None, None)
            if action == "eval":
                v = dds.eval(p1.root)
            elif action == "evalload":
                # the usual pattern: evaluate, then read the committed paths back in the same process
                v = dds.eval(p1.root)
                lo = [dds.load(q) for q in ("/out", "/d/in")]
                want = p1.plain()
                if lo != [want["/out"], want["/d/in"]]:
                    return ("exc", "loads after own evaluation returned %r, expected %r" % (lo, [want["/out"], want["/d/in"]]), None)
            else:
                v = [dds.load(q) for q in ("/out", "/d/in")]
            return ("ok", v, list(tick.LOG))
        except DDSException as e:
            return ("exc", "DDSException: " + str(e)[:160], None)
        except Exception as e:
            return ("exc", type(e).__name__ + ": " + str(e)[:160], None)
        finally:
            api._eval_ctx = None

    return body


def _scenario(name):
    """(setup bodies run sequentially first, concurrent bodies, final checks)"""
    if name == "WW":
        return [], [_body("evalload", 1, "/s/y/data"), _body("evalload", 1, "/s/y/data")]
    if name == "WR":
        return [_body("eval", 1, "/s/y/data")], [_body("evalload", 2, "/s/y/data"), _body("load", 1, "/s/y/data")]
    if name == "WW2":
        return [], [_body("evalload", 1, "/s/y/dataA"), _body("evalload", 1, "/s/y/dataB")]
    raise KeyError(name)


def _seq(fs, body):
    fs.cur = None
    return body(None)


def total_steps(name):
    tick.PAYLOAD.clear()
    tick.PAYLOAD.update({"inner": "a", "outer": "b"})
    fs = sched.SchedFS()
    fs.nodes["/s"] = ("dir",)
    sched.install(fs)
    setup, bodies = _scenario(name)
    for b in setup:
        assert _seq(fs, b)[0] == "ok"
    sc = sched.Scheduler(fs, [sched.Proc(100 + i, b) for i, b in enumerate(bodies)])
    res = sc.run(0, [])
    assert all(r[0] == "ok" for r in res), res
    return fs.steps


def sched_impl(a):
    h.enter()
    sel = h.SEL
    name = sel["scenario"]
    first = sel["first"]
    s1 = a["s1"]
    switches = [s1]
    if sel["k"] == 2:
        s2 = a["s2"]
        if not (s1 < s2):
            return True
        switches.append(s2)
    if h.blocked(**a):
        return True
    tick.PAYLOAD.clear()
    tick.PAYLOAD.update({"inner": a["pay"], "outer": "o"})
    fs = sched.SchedFS()
    fs.nodes["/s"] = ("dir",)  # like the temporary root of the real-OS replay: same step indices
    sched.install(fs)
    setup, bodies = _scenario(name)
    old = None
    for b in setup:
        r = _seq(fs, b)
        if r[0] != "ok":
            return h.verdict(False)
    p1.VERSION = 1
    v1 = p1.plain()
    p1.VERSION = 2
    v2 = p1.plain()
    sc = sched.Scheduler(fs, [sched.Proc(100 + i, b) for i, b in enumerate(bodies)])
    res = sc.run(first, switches)
    ok = True
    final_version = 1
    if name in ("WW", "WW2"):
        for i, r in enumerate(res):
            if r[0] != "ok" or r[1] != v1["/out"]:
                LAST_DETAIL[0] = "process %d: %r (expected %r)" % (i, r[:2], v1["/out"])
                ok = False
    else:
        final_version = 2
        w, rd = res
        if w[0] != "ok" or w[1] != v2["/out"]:
            LAST_DETAIL[0] = "writer: %r (expected %r)" % (w[:2], v2["/out"])
            ok = False
        elif rd[0] != "ok":
            LAST_DETAIL[0] = "reader: %r" % (rd[:2],)
            ok = False
        else:
            for (q, v) in zip(("/out", "/d/in"), rd[1]):
                if not (v == v1[q] or v == v2[q]):
                    LAST_DETAIL[0] = "reader: dds.load(%s) = %r (old %r, new %r)" % (q, v, v1[q], v2[q])
                    ok = False
    if ok:
        want = v1 if final_version == 1 else v2
        for dd in (["/s/y/dataA", "/s/y/dataB"] if name == "WW2" else ["/s/y/data"]):
            r = _seq(fs, _body("eval", final_version, dd))
            if r[0] != "ok" or r[1] != want["/out"] or r[2]:
                LAST_DETAIL[0] = "fresh process afterwards (%s): %r" % (dd, r)
                ok = False
                break
            r = _seq(fs, _body("load", final_version, dd))
            if r[0] != "ok" or r[1] != [want["/out"], want["/d/in"]]:
                LAST_DETAIL[0] = "loads afterwards (%s): %r" % (dd, r)
                ok = False
                break
    if not ok and not h.TWIN:
        import os

        LAST_DETAIL[0] += " | schedule: first=%d switches=%r" % (first, switches)
        if os.environ.get("VERIF_DEBUG"):
            print("DEBUG", LAST_DETAIL[0], flush=True)
    return h.verdict(ok)


def make_fn(fn, sel, tag):
    params = [("s1", "int")]
    pres = ["%d <= s1 < %d" % (sel["lo"], sel["hi"])]
    if sel["k"] == 2:
        params.append(("s2", "int"))
        pres.append("s1 < s2 <= %d" % sel["total"])
    params.append(("pay", "str"))
    pres.append("len(pay) <= 1 and pay.isascii()")
    return h.gen_fn(tag, "sched", params, pres, "harness.C07", "sched_impl")


def queries(tier):
    qs = []
    h.install_clock()
    fastenv.install()
    # quick: one preemption (k = 1), every switch point. thorough: the same first (they sort first: cost), then two preemptions
    # (k = 2) in 16 chunks per scenario and first process, as far as the wall budget of the tier allows - the evidence lists the
    # chunks that were not run
    for k in ((1,) if tier == "quick" else (1, 2)):
        for name in ("WW", "WR", "WW2"):
            total = total_steps(name)
            nchunks = 4 if k == 1 else 16
            size = max(1, -(-total // nchunks))
            for first in (0, 1):
                lo = 1
                while lo < total:
                    hi = min(lo + size, total)
                    q = {"id": "%s%s.first%d.s%02d-%02d" % (name, "" if k == 1 else ".k2", first, lo, hi - 1), "fn": "sched", "sel": {"scenario": name, "first": first, "k": k, "lo": lo, "hi": hi, "total": total}, "timeout": 400 if k == 1 else 1000}
                    if k == 1 and tier != "quick":
                        q["cost"] = 100000
                    qs.append(q)
                    lo = hi
    return qs


def functions_encoded():
    return FUNCTIONS_ENCODED


def replay(sel, args, fn):
    """Interleavings are replayed on the real OS: two children block before every wrapped os / open call of
    dds.store and dds.codecs.builtins until this controller releases them in the order the solver chose."""
    from harness import C07_replay

    return C07_replay.replay(sel, args)
