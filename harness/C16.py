"""
C16 - every usable local-store configuration works; data dirs are independent views.

Real code executed symbolically: dds._api.set_store (option decoding), dds.store.LocalFileStore (all methods), dds._lru_store, the
evaluation and dds.load - over the file-system model with a working directory and symlinked directories; the analysis of the
concrete pipeline runs natively.

Queries
  cfg.<fi>.<fd>   internal_dir / data_dir each in one of 5 forms (absolute, relative, trailing slash, nested non-existing, under a
                  symlinked parent whose target lies at another depth); cache_objects, the point where the working directory changes
                  and the payload are solver variables: keep, load in the same process before and after chdir, load and re-evaluation
                  in a fresh process - all return the kept values and the fresh process executes nothing.
  views           two stores sharing one internal directory with different data directories, interleaved in a solver-chosen order.
"""
from vlib import h, tick
from vlib.models import fsmodel, fastenv

h.quiet_logs()

import dds
import dds._api as api
from dds.structures import DDSException

import vpipes.p1 as p1

PROPERTY = "C16"
EXPLANATION = "C16: local-store configurations over the file-system model (cwd, symlinked parents); form selectors, cache_objects, chdir point and payload are solver variables."
STUBBED_NAMES = fsmodel.STUBBED_NAMES
ASSUMPTIONS = [fastenv.ASSUMPTION, "file-system model = POSIX as validated by the differential self-test of this run", "a fresh process that names the store by a relative directory is started in the same working directory (a relative name denotes another place elsewhere)", "clock stub"]
OUTSIDE = ["permission errors", "non-POSIX path semantics", "directories that are not usable (a regular file in the way)"]
FUNCTIONS_ENCODED = ["dds._api.set_store", "dds.store.LocalFileStore.*", "dds._lru_store.LRUCacheStore.*", "dds._api._eval_new_ctx", "dds._api.load"]
FORMS = ["absolute", "relative", "trailing-slash", "nested-missing", "symlinked-parent"]
CACHE = [None, False, True, 0, -1, 2]
BOUNDS = {"quick": {"forms": FORMS, "cache_objects": CACHE, "chdir": "before keep / between keep and load / never", "views": "3 interleavings of two data views x 2 entry styles (dds.eval of an un-kept root, top-level dds.keep)"}}
BOUNDS["thorough"] = BOUNDS["quick"]
LAST_DETAIL = [""]


def selftest():
    return fsmodel.selftest()


def setup_query(sel):
    h.install_clock()
    fastenv.install()


def _mkfs():
    fs = fsmodel.FS()
    for d in ("/s", "/s/w", "/s/w/sub", "/s/a", "/s/phys", "/s/phys/deep", "/s/phys/deep/real"):
        fs.nodes[d] = ("dir",)
    fs.nodes["/s/lnk"] = ("link", "/s/phys/deep/real")
    fs.cwd = "/s/w"
    fsmodel.install(fs)
    return fs


def _dir(form, leaf):
    return {0: "/s/a/" + leaf, 1: "rel/" + leaf, 2: "/s/a/" + leaf + "/", 3: "/s/n1/n2/n3/" + leaf, 4: "/s/lnk/" + leaf}[form]


def _proc(internal, data, c):
    h.fresh_process()
    dds.accept_module("vpipes")
    api.set_store("local", internal, data, None, None, c)


def _try(fn):
    try:
        return ("ok", fn())
    except DDSException as e:
        return ("dds", str(e)[:100])
    except Exception as e:
        return ("exc", type(e).__name__ + ": " + str(e)[:80])
    finally:
        api._eval_ctx = None


def cfg_impl(a):
    h.enter()
    if h.blocked(**a):
        return True
    sel = h.SEL
    fi, fd = sel["fi"], sel["fd"]
    c = CACHE[a["ci"]]
    cd = a["cd"]
    tick.PAYLOAD.clear()
    tick.PAYLOAD.update({"inner": a["pay"], "outer": ""})
    fs = _mkfs()
    I, D = _dir(fi, "int"), _dir(fd, "data")
    p1.VERSION = 1
    want = p1.plain()
    ok = True

    def bad(msg):
        LAST_DETAIL[0] = "internal_dir=%r data_dir=%r cache_objects=%r chdir@%d: %s" % (I, D, c, cd, msg)
        return False

    r = _try(lambda: _proc(I, D, c))
    if r[0] != "ok":
        return h.verdict(bad("set_store failed: %r" % (r,)))
    if cd == 0:
        fs.cwd = "/s/w/sub"
    tick.reset()
    r = _try(lambda: dds.eval(p1.root))
    if r != ("ok", want["/out"]):
        ok = bad("keep returned %r" % (r,))
    if ok and cd == 1:
        fs.cwd = "/s/w/sub"
    for q in ("/out", "/d/in"):
        if ok:
            r = _try(lambda: dds.load(q))
            if r != ("ok", want[q]):
                ok = bad("dds.load(%s) after keep (same process) -> %r" % (q, r))
    if ok:
        fs.cwd = "/s/w"  # a new process, started where the first one was
        r = _try(lambda: _proc(I, D, c))
        if r[0] != "ok":
            ok = bad("set_store in a fresh process failed: %r" % (r,))
    for q in ("/out", "/d/in"):
        if ok:
            r = _try(lambda: dds.load(q))
            if r != ("ok", want[q]):
                ok = bad("dds.load(%s) in a fresh process -> %r" % (q, r))
    if ok:
        tick.reset()
        r = _try(lambda: dds.eval(p1.root))
        if r != ("ok", want["/out"]) or tick.LOG:
            ok = bad("re-evaluation in a fresh process -> %r, executed %r" % (r, list(tick.LOG)))
    return h.verdict(ok)


def views_impl(a):
    h.enter()
    if h.blocked(**a):
        return True
    order = a["order"]
    c = CACHE[a["ci"]]
    tick.PAYLOAD.clear()
    tick.PAYLOAD.update({"inner": a["pay"], "outer": ""})
    _mkfs()
    I, D1, D2 = "/s/a/int", "/s/a/data1", "/s/a/data2"
    ok = True
    # entry style: dds.eval of the un-kept root, or the root itself kept at /top (its own blob is then shared between the views too)
    if h.SEL.get("topkeep"):
        run = lambda: dds.keep("/top", p1.root)
    else:
        run = lambda: dds.eval(p1.root)

    def bad(msg):
        LAST_DETAIL[0] = "views (order %d, cache_objects=%r): %s" % (order, c, msg)
        return False

    p1.VERSION = 1
    v1 = p1.plain()
    _proc(I, D1, c)
    tick.reset()
    r = _try(run)
    if r != ("ok", v1["/out"]):
        ok = bad("view 1 keep -> %r" % (r,))
    # view 2 has not kept anything: its paths do not exist
    if ok:
        _proc(I, D2, c)
        r = _try(lambda: dds.load("/out"))
        if r[0] != "dds":
            ok = bad("dds.load('/out') through view 2, which never kept it -> %r" % (r,))
    if ok and order >= 1:
        # the same code through view 2: blobs are shared, nothing is executed, view 2 gets its own paths
        tick.reset()
        r = _try(run)
        if r != ("ok", v1["/out"]) or tick.LOG:
            ok = bad("view 2 evaluation -> %r, executed %r (blobs should be shared)" % (r, list(tick.LOG)))
        for q in ("/out", "/d/in"):
            # every path kept by that evaluation is now served through view 2
            if ok and _try(lambda: dds.load(q)) != ("ok", v1[q]):
                ok = bad("after evaluating through view 2, dds.load(%r) through view 2 -> %r, expected %r" % (q, _try(lambda: dds.load(q)), v1[q]))
    if ok and order == 2:
        # changed code kept through view 2 only: view 1 keeps serving version 1
        p1.VERSION = 2
        v2 = p1.plain()
        r = _try(run)
        if r != ("ok", v2["/out"]):
            ok = bad("view 2 keep of version 2 -> %r" % (r,))
        if ok and _try(lambda: dds.load("/out")) != ("ok", v2["/out"]):
            ok = bad("view 2 does not serve its own new value")
        if ok:
            _proc(I, D1, c)
            r = _try(lambda: dds.load("/out"))
            if r != ("ok", v1["/out"]):
                ok = bad("after a keep through view 2, view 1 serves %r instead of its own %r" % (r, v1["/out"]))
    return h.verdict(ok)


def make_fn(fn, sel, tag):
    if fn == "cfg":
        return h.gen_fn(tag, "cfg", [("ci", "int"), ("cd", "int"), ("pay", "str")], ["0 <= ci < %d" % len(CACHE), "0 <= cd <= 2", "len(pay) <= 1 and pay.isascii()"], "harness.C16", "cfg_impl")
    return h.gen_fn(tag, "views", [("order", "int"), ("ci", "int"), ("pay", "str")], ["0 <= order <= 2", "0 <= ci < %d" % len(CACHE), "len(pay) <= 1 and pay.isascii()"], "harness.C16", "views_impl")


def queries(tier):
    qs = []
    for fi in range(5):
        for fd in range(5):
            qs.append({"id": "cfg.%s.%s" % (FORMS[fi], FORMS[fd]), "fn": "cfg", "sel": {"fi": fi, "fd": fd}, "timeout": 400})
    qs.append({"id": "views", "fn": "views", "sel": {}, "timeout": 400})
    qs.append({"id": "views.topkeep", "fn": "views", "sel": {"topkeep": True}, "timeout": 400})
    return qs


def functions_encoded():
    return FUNCTIONS_ENCODED


def replay(sel, args, fn):
    """Real OS: the same configuration in a temporary directory (with a real symlinked parent and real chdir)."""
    import os
    import shutil
    import tempfile

    if fn != "cfg":
        return None
    fsmodel.uninstall()
    h.install_clock()
    d = os.path.realpath(tempfile.mkdtemp(prefix="verif-c16-"))
    old_cwd = os.getcwd()
    try:
        for x in ("w/sub", "a", "phys/deep/real"):
            os.makedirs(os.path.join(d, x))
        os.symlink(os.path.join(d, "phys/deep/real"), os.path.join(d, "lnk"))

        def real_dir(form, leaf):
            m = _dir(form, leaf)
            return m if form == 1 else d + m[2:]  # "/s/..." -> "<d>/..."

        I, D = real_dir(sel["fi"], "int"), real_dir(sel["fd"], "data")
        c = CACHE[args["ci"]]
        cd = args["cd"]
        tick.PAYLOAD.clear()
        tick.PAYLOAD.update({"inner": args["pay"], "outer": ""})
        p1.VERSION = 1
        want = p1.plain()
        os.chdir(os.path.join(d, "w"))
        where = "real OS, internal_dir=%r data_dir=%r cache_objects=%r chdir@%d: " % (I, D, c, cd)
        r = _try(lambda: _proc(I, D, c))
        if r[0] != "ok":
            return {"reproduced": True, "detail": where + "set_store failed: %r" % (r,)}
        if cd == 0:
            os.chdir("sub")
        r = _try(lambda: dds.eval(p1.root))
        if r != ("ok", want["/out"]):
            return {"reproduced": True, "detail": where + "keep -> %r" % (r,)}
        if cd == 1:
            os.chdir(os.path.join(d, "w", "sub"))
        for q in ("/out", "/d/in"):
            r = _try(lambda: dds.load(q))
            if r != ("ok", want[q]):
                return {"reproduced": True, "detail": where + "dds.load(%s) after keep -> %r" % (q, r)}
        os.chdir(os.path.join(d, "w"))
        _proc(I, D, c)
        for q in ("/out", "/d/in"):
            r = _try(lambda: dds.load(q))
            if r != ("ok", want[q]):
                return {"reproduced": True, "detail": where + "dds.load(%s) in a fresh process -> %r" % (q, r)}
        tick.reset()
        r = _try(lambda: dds.eval(p1.root))
        if r != ("ok", want["/out"]) or tick.LOG:
            return {"reproduced": True, "detail": where + "re-evaluation in a fresh process -> %r executed %r" % (r, list(tick.LOG))}
        return {"reproduced": False, "detail": "real OS: configuration works"}
    finally:
        os.chdir(old_cwd)
        shutil.rmtree(d, ignore_errors=True)
