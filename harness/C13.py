"""
C13 - a kept call's signature depends on the argument binding, not on its spelling.

Real code executed symbolically: dds.fun_args.get_arg_ctx / get_arg_ctx_ast / dds_hash, dds.introspect (_build_return_sig, inspect_call
keep branch) and the whole evaluation, on template T13 under the ideal-hash model; the signature of the kept call is read from the
path -> signature map handed to Store.sync_paths.

Queries
  spell.<fn>      direct dds.keep(p, f, ...) with symbolic argument values: every spelling of one binding (positional, keyword,
                  reordered keywords, default omitted / passed explicitly) gives one signature.
  distinct.<fn>   two direct calls with symbolic bindings: equal signatures => equal bindings (modulo the documented identifications).
  src.<group>     calls discovered as literals inside an evaluated function: spellings of one binding share the signature, and it equals
                  the signature of the direct call with a symbolic value exactly when the value equals the literal.
"""
from vlib import h, tick
from vlib.models import hashmodel
from vlib.templates import T, LITERALS
from vlib.world import World

h.quiet_logs()

import dds

PROPERTY = "C13"
EXPLANATION = "C13: signatures of one kept call under different spellings / bindings, values as solver variables, ideal-hash model (XOR of single-bit tokens makes pair cancellations visible)."
STUBBED_NAMES = hashmodel.STUBBED_NAMES
ASSUMPTIONS = ["ideal hash: SHA-256 collision-free and GF(2)-independent on the preimages involved", "struct model", "clock stub; message f-strings blanked"]
OUTSIDE = ["*args / **kwargs / keyword-only parameters", "functions with more than 3 parameters", "argument values other than 32-bit ints, bools, None, short ASCII strings"]
FUNCTIONS_ENCODED = ["dds.fun_args.get_arg_ctx", "dds.fun_args.get_arg_ctx_ast", "dds.fun_args.dds_hash", "dds.introspect._build_return_sig", "dds.introspect.InspectFunction.inspect_call", "dds._api._eval_new_ctx"]
BOUNDS = {"quick": {"functions": ["h1(x)", "g2(a, b)", "g3(x, y=5, z='k')", "gf(x, y=0, z=None)"], "values": "symbolic 32-bit ints / bool / None / ASCII str <= 1 / finite floats (against the float literal)", "literals in source": [s for s, _v in LITERALS]}}
BOUNDS["thorough"] = dict(BOUNDS["quick"], values=BOUNDS["quick"]["values"].replace("ASCII str <= 1", "ASCII str <= 2"))
LAST_DETAIL = [""]
M = "tq.m1"


def setup_query(sel):
    hashmodel.install()
    h.install_clock()


def _sig(w, fn, args=(), kwargs=None, root=None):
    """Signature assigned to /t13/a by a direct keep of fn(*args, **kwargs) or by evaluating root()."""
    hashmodel_state = None
    if root is not None:
        r = w.run_real("eval", (), entry=(M, root))
    else:
        r = w.run_real("keep", args, kwargs=kwargs or {}, entry=(M, fn), path="/t13/a")
    if r[0] != "ok":
        return ("err", r[1])
    return w.last_sigs().get("/t13/a")


def _new_world():
    hashmodel.MODEL.reset()
    return World(T["T13"], "memory")


def _val(kind, a, name):
    if kind == "int":
        return a[name + "_i"]
    if kind == "bool":
        return a[name + "_b"]
    if kind == "none":
        return None
    if kind == "float":
        return a[name + "_f"]
    return a[name + "_s"]


def spell_impl(a):
    h.enter()
    if h.blocked(**a):
        return True
    sel = h.SEL
    w = _new_world()
    fn = sel["fn"]
    x = a["x_i"]
    if fn == "g2":
        y = a["y_i"]
        sp = [((x, y), {}), ((x,), {"b": y}), ((), {"a": x, "b": y}), ((), {"b": y, "a": x})]
    else:
        dy, dz = (5, "k") if fn == "g3" else (0, None)
        if sel.get("after_edit"):
            # the function was analysed with its old default earlier in this process, then its definition is edited (y=5 -> y=9)
            _sig(w, fn, (x,))
            w.set_variants({M: "b"})
            dy = 9
        # default omitted == default passed explicitly
        if sel.get("use_default_yz"):
            sp = [((x, dy, dz), {}), ((x,), {}), ((), {"x": x}), ((x,), {"z": dz})]
        elif sel.get("use_default_y"):
            z = _val(sel["zkind"], a, "z")
            sp = [((x, dy, z), {}), ((x,), {"z": z}), ((), {"z": z, "x": x}), ((x, dy), {"z": z})]
        elif sel.get("use_default_z"):
            y = _val(sel["ykind"], a, "y")
            sp = [((x, y, dz), {}), ((x, y), {}), ((x,), {"y": y}), ((), {"y": y, "x": x})]
        else:
            y = _val(sel["ykind"], a, "y")
            z = _val(sel["zkind"], a, "z")
            sp = [((x, y, z), {}), ((x, y), {"z": z}), ((x,), {"y": y, "z": z}), ((), {"z": z, "x": x, "y": y})]
    sigs = [_sig(w, fn, args, kw) for (args, kw) in sp]
    ok = all(s == sigs[0] and not isinstance(s, tuple) for s in sigs)
    if not ok:
        LAST_DETAIL[0] = "%s: spellings %r of one binding get signatures %r" % (fn, sp, [str(s)[:10] for s in sigs])
    return h.verdict(ok)


def distinct_impl(a):
    h.enter()
    if h.blocked(**a):
        return True
    sel = h.SEL
    w = _new_world()
    fn = sel["fn"]
    if fn == "g2":
        b1 = (a["x_i"], a["y_i"])
        b2 = (a["u_i"], a["v_i"])
    else:
        b1 = (a["x_i"], a["y_i"], a["z_s"])
        b2 = (a["u_i"], a["v_i"], a["w_s"])
    s1 = _sig(w, fn, b1)
    s2 = _sig(w, fn, b2)
    ok = not isinstance(s1, tuple) and not isinstance(s2, tuple) and ((s1 != s2) or (b1 == b2))
    if not ok:
        LAST_DETAIL[0] = "%s%r and %s%r share the signature %s" % (fn, b1, fn, b2, str(s1)[:10])
    return h.verdict(ok)


def src_impl(a):
    h.enter()
    if h.blocked(**a):
        return True
    sel = h.SEL
    w = _new_world()
    ok = True
    if sel["group"] == "spellings":
        s = dict((r, _sig(w, None, root=r)) for r in ("root_pos", "root_kw", "root_kw2", "root_def", "root_defx", "root_defk", "root_other", "root_kw_other", "root_ykw", "root_ykw_other", "root_zkw", "root_zkw_other", "root_zpos", "root_swap", "root_same"))
        direct = _sig(w, "g3", (1, 7, "q"))
        same = [("root_pos", "root_kw"), ("root_pos", "root_kw2"), ("root_def", "root_defx"), ("root_def", "root_defk"), ("root_zkw", "root_zpos")]
        diff = [("root_pos", "root_def"), ("root_pos", "root_other"), ("root_swap", "root_same"), ("root_kw", "root_kw_other"), ("root_ykw", "root_ykw_other"), ("root_ykw", "root_def"), ("root_zkw", "root_zkw_other"), ("root_zkw", "root_def")]
        for (p, q) in same:
            if s[p] != s[q] or isinstance(s[p], tuple):
                ok = False
                LAST_DETAIL[0] = "%s and %s spell the same binding but get signatures %s / %s" % (p, q, str(s[p])[:10], str(s[q])[:10])
        for (p, q) in diff:
            if s[p] == s[q]:
                ok = False
                LAST_DETAIL[0] = "%s and %s bind different values but share signature %s" % (p, q, str(s[p])[:10])
        if ok and direct != s["root_pos"]:
            ok = False
            LAST_DETAIL[0] = "direct keep g3(1, 7, 'q') and the same call seen in source get %s / %s" % (str(direct)[:10], str(s["root_pos"])[:10])
    else:
        k = sel["lit"]
        lit = LITERALS[k][1]
        v = _val(sel["vkind"], a, "v")
        s_src = _sig(w, None, root="lit_%d" % k)
        s_dir = _sig(w, "h1", (v,))
        equal_values = (v == lit) and ((v is None) == (lit is None)) and (isinstance(v, str) == isinstance(lit, str)) and (isinstance(v, float) == isinstance(lit, float))
        ok = not isinstance(s_src, tuple) and not isinstance(s_dir, tuple) and ((s_src == s_dir) == bool(equal_values))
        if not ok:
            LAST_DETAIL[0] = "literal %s in source vs direct value %r: signatures %s / %s" % (LITERALS[k][0], v, str(s_src)[:10], str(s_dir)[:10])
    return h.verdict(ok)


def known_falsy_default(sel, A):
    """omitted falsy default vs the same value passed explicitly (gf: y=0, z=None)."""
    return sel.get("fn") == "gf" and (sel.get("use_default_z") or sel.get("use_default_yz") or sel.get("use_default_y"))


def known_negative_literal(sel, A):
    return sel.get("group") == "literal" and LITERALS[sel["lit"]][0].startswith("-") and A.get("v_i") == LITERALS[sel["lit"]][1]


def known_literal_none(sel, A):
    return sel.get("group") == "literal" and LITERALS[sel["lit"]][1] is None and sel.get("vkind") == "none"


def make_fn(fn, sel, tag):
    params, pres = [], []

    def add(name, kind):
        if kind == "int":
            params.append((name + "_i", "int"))
            pres.append("-2**31 <= %s_i < 2**31" % name)
        elif kind == "bool":
            params.append((name + "_b", "bool"))
        elif kind == "float":
            params.append((name + "_f", "float"))
            pres.append("%s_f == %s_f and -1e9 < %s_f < 1e9" % (name, name, name))
        elif kind == "str":
            params.append((name + "_s", "str"))
            pres.append("len(%s_s) <= %d and %s_s.isascii()" % (name, sel.get("slen", 1), name))

    if fn == "spell":
        add("x", "int")
        if sel["fn"] == "g2":
            add("y", "int")
        else:
            if not (sel.get("use_default_yz") or sel.get("use_default_y")):
                add("y", sel["ykind"])
            if not (sel.get("use_default_z") or sel.get("use_default_yz")):
                add("z", sel["zkind"])
    elif fn == "distinct":
        for n in ("x", "y", "u", "v"):
            add(n, "int")
        if sel["fn"] != "g2":
            add("z", "str")
            add("w", "str")
    else:
        if sel["group"] == "literal":
            add("v", sel["vkind"])
    return h.gen_fn(tag, fn, params, pres, "harness.C13", fn + "_impl")


def queries(tier):
    qs = []
    qs.append({"id": "spell.g2", "fn": "spell", "sel": {"fn": "g2"}, "timeout": 400})
    for f in ("g3", "gf"):
        qs.append({"id": "spell.%s.full" % f, "fn": "spell", "sel": {"fn": f, "ykind": "int", "zkind": "str"}, "timeout": 500})
        qs.append({"id": "spell.%s.default_z" % f, "fn": "spell", "sel": {"fn": f, "ykind": "int", "zkind": "str", "use_default_z": True}, "timeout": 500})
        qs.append({"id": "spell.%s.default_yz" % f, "fn": "spell", "sel": {"fn": f, "ykind": "int", "zkind": "str", "use_default_yz": True}, "timeout": 500})
        qs.append({"id": "spell.%s.default_y" % f, "fn": "spell", "sel": {"fn": f, "ykind": "int", "zkind": "str", "use_default_y": True}, "timeout": 500})
    qs.append({"id": "spell.g3.default_yz.after-edit", "fn": "spell", "sel": {"fn": "g3", "ykind": "int", "zkind": "str", "use_default_yz": True, "after_edit": True}, "timeout": 500})
    qs.append({"id": "spell.gf.none", "fn": "spell", "sel": {"fn": "gf", "ykind": "bool", "zkind": "none"}, "timeout": 500})
    qs.append({"id": "distinct.g2", "fn": "distinct", "sel": {"fn": "g2"}, "timeout": 600})
    qs.append({"id": "distinct.g3", "fn": "distinct", "sel": {"fn": "g3"}, "timeout": 600})
    qs.append({"id": "src.spellings", "fn": "src", "sel": {"group": "spellings"}, "timeout": 400})
    for k, (src, v) in enumerate(LITERALS):
        kind = "none" if v is None else ("bool" if isinstance(v, bool) else ("int" if isinstance(v, int) else ("str" if isinstance(v, str) else ("float" if isinstance(v, float) else None))))
        if kind is None:
            continue
        qs.append({"id": "src.lit%d.%s" % (k, kind), "fn": "src", "sel": {"group": "literal", "lit": k, "vkind": kind}, "timeout": 300})
        if kind == "float":
            qs.append({"id": "src.lit%d.int" % k, "fn": "src", "sel": {"group": "literal", "lit": k, "vkind": "int"}, "timeout": 300})
        if kind in ("int", "bool"):
            other = "bool" if kind == "int" else "int"
            qs.append({"id": "src.lit%d.%s" % (k, other), "fn": "src", "sel": {"group": "literal", "lit": k, "vkind": other}, "timeout": 300})
    return qs


_queries_quick = queries


def queries(tier):
    qs = _queries_quick(tier)
    if tier == "thorough":
        for q in qs:
            q["sel"]["slen"] = 2
            q["timeout"] = q["timeout"] * 3
    return qs


def functions_encoded():
    return FUNCTIONS_ENCODED


def replay(sel, args, fn):
    import hashlib
    import struct
    import dds.fun_args as fa

    fa.hashlib = hashlib
    fa.struct = struct
    h.SEL.clear()
    h.SEL.update(sel)
    h.install_clock()
    ok = {"spell": spell_impl, "distinct": distinct_impl, "src": src_impl}[fn](dict(args))
    return {"reproduced": not ok, "detail": ("real SHA-256: " + LAST_DETAIL[0]) if not ok else "real SHA-256: signatures follow the binding"}
