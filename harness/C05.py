"""
C05 - value hashing is total, deterministic and collision-free on supported values.

Real code executed symbolically: dds.fun_args.dds_hash with all nested closures (check_len, _dds_hash,
_hash_dict_tuple, _dds_hash0), dds._config.get_option.

Queries
  total.<skeleton>        dds_hash ends with a str or a DDSException coded TYPE_NOT_SUPPORTED /
                          SEQUENCE_TOO_LONG; the size guard fires exactly when a sequence is longer than the
                          (symbolic) option value.
  pair.<skelA>~<skelB>    dds_hash(x) == dds_hash(y)  =>  x ~ y  (structural equality modulo the documented
                          identifications list=tuple, bool=int, path/date = its text form).
  hex.<n>                 the "[x] vs the 64-character digest of x" class, with the string built from the token.
Value skeletons are enumerated by the driver; every leaf is a solver variable.
"""
import dataclasses
import datetime
from collections import OrderedDict
from pathlib import PurePosixPath

from vlib import h
from vlib.models import hashmodel

h.quiet_logs()

import dds.fun_args as fa
import dds._config as cfg
from dds.structures import DDSException, DDSErrorCode

PROPERTY = "C05"
EXPLANATION = "C05: dds_hash under the interning (ideal) hash model; leaves of each value skeleton are solver variables (ints unbounded unless stated)."
STUBBED_NAMES = hashmodel.STUBBED_NAMES
FUNCTIONS_ENCODED = ["dds.fun_args.dds_hash", "dds.fun_args.dds_hash.<locals>.check_len", "dds.fun_args.dds_hash.<locals>._dds_hash", "dds.fun_args.dds_hash.<locals>._hash_dict_tuple", "dds.fun_args.dds_hash.<locals>._dds_hash0", "dds.fun_args._algo_str", "dds.fun_args._algo_bytes", "dds._config.get_option"]
ASSUMPTIONS = [
    "ideal hash: SHA-256 is collision-free on the preimages involved (interning model: digests equal iff preimages equal)",
    "struct model: pack('!l'/'!q', i) is the big-endian two's complement of i and raises struct.error outside the format's range; pack('!d', x) is injective on reals (CrossHair floats are reals; nan/inf/-0.0 are concrete leaves)",
    "float vs 8-byte-string and float vs int64 bit-pattern coincidences are outside the model (never reported, never excluded)",
]
OUTSIDE = ["nesting depth > 2, container width > 2", "strings longer than the stated bound (except the dedicated hex.* queries)", "dates / times / timedeltas are concrete leaves (their constructors are C code)", "dict keys other than str / int"]


@dataclasses.dataclass
class DC1:
    a: object


@dataclasses.dataclass
class DC2:
    a: object
    b: object


@dataclasses.dataclass
class DCX:
    a: object


class Unsupported:
    pass


PATH_LEAVES = ["/", "/a", "a/b", ".", "", "/a/../b", "//a", "a b", "/\u00e9"]


def _PW(k):
    # pathlib's __str__ over a symbolic string is a CrossHair artefact (TypeError), so path leaves are
    # concrete witnesses selected by a symbolic index (enumeration through the solver)
    return PurePosixPath(PATH_LEAVES[k % len(PATH_LEAVES)])


KEY_LEAVES = ["", "a", "b", "ab", "|", "a|b", "0", "1", "None"]


def _KW(k):
    # dict keys: building a dict hashes its keys, which realizes a symbolic string; keys are therefore
    # concrete witnesses selected by a symbolic index (enumeration through the solver)
    return KEY_LEAVES[k % len(KEY_LEAVES)]


def _KI(k):
    return [0, 1, -1][k % 3]


NS = {
    "KI": _KI,
    "K": _KW,
    "P": _PW, "OD": OrderedDict, "DC1": DC1, "DC2": DC2, "DCX": DCX, "U": Unsupported,
    "D0": datetime.date(2020, 1, 2), "T0": datetime.time(3, 4, 5), "DT0": datetime.datetime(2020, 1, 2, 3, 4, 5), "TD0": datetime.timedelta(days=1, seconds=2),
    "NAN": float("nan"), "INF": float("inf"), "NINF": float("-inf"), "NZ": -0.0, "Z": 0.0, "TINY": 5e-324,
}

# skeleton name -> expression over the leaves i0 i1 (int) s0 s1 (str) b0 (bool) f0 (float)
SKEL_QUICK = OrderedDict([
    ("none", "None"), ("bool", "b0"), ("int", "i0"), ("float", "f0"), ("str", "s0"),
    ("list0", "[]"), ("list_i", "[i0]"), ("list_s", "[s0]"), ("list_ii", "[i0, i1]"), ("list_if", "[i0, f0]"), ("list_ss", "[s0, s1]"),
    ("tuple_i", "(i0,)"), ("nest_i", "[[i0]]"), ("list_li", "[[i0], i1]"), ("list_il", "[i0, [i1]]"), ("dc1_i", "DC1(i0)"), ("dcx_i", "DCX(i0)"), ("date", "D0"), ("nan", "NAN"), ("inf", "INF"), ("negzero", "NZ"), ("dict0", "{}"), ("dict_ki", "{K(k0): i0}"), ("dict_ii", "{KI(k0): i1}"), ("path", "P(k0)"), ("bigint_p", "g0"), ("bigint_n", "-g0"),
])
SKEL_MORE = OrderedDict([
    ("list_n", "[None]"), ("list_b", "[b0]"), ("list_f", "[f0]"), ("list_is", "[i0, s0]"), ("list_si", "[s0, i0]"),
    ("nest_s", "[[s0]]"), ("nest_e", "[[]]"), ("nest_ee", "[[], []]"),
    ("tuple_s", "(s0,)"), ("tuple_ss", "(s0, s1)"), ("tuple0", "()"),
    ("dict_ks", "{K(k0): s0}"), ("dict_is", "{KI(k0): s0}"), ("dict_ni", "{None: i0}"), ("dict_kn", "{K(k0): None}"), ("dict_kl", "{K(k0): [i0]}"),
    ("dict2", "OD([(K(k0), i0), (K(k1), i1)])"), ("odict_ki", "OD([(K(k0), i0)])"), ("odict0", "OD()"),
    ("bigint_p6", "g0 * 256"), ("bigint_n6", "-g0 * 256 - 1"), ("list_g", "[g0]"), ("list_gi", "[-g0, i0]"),
    ("dc1_s", "DC1(s0)"), ("dc2", "DC2(i0, s0)"), ("dict_a", "{'a': i0}"),
    ("time", "T0"), ("datetime", "DT0"), ("timedelta", "TD0"),
    ("ninf", "NINF"), ("zero", "Z"), ("tiny", "TINY"),
])
TOTAL_ONLY = OrderedDict([("unsupported", "U()"), ("list_u", "[U()]"), ("bytes", "b'ab'"), ("set", "{1, 2}"), ("str_any", "s0"), ("list_sany", "[s0]")])

BOUNDS = {
    "quick": {"skeletons": list(SKEL_QUICK), "pairs": "all unordered pairs incl. self (105)", "str": "<= 3 ASCII chars in pair queries; <= 2 arbitrary code points (incl. surrogates) in total.*any queries", "int": "32-bit ints symbolic over their whole range; ints beyond 32 bits: 2**31 < |g| <= 2**40 (5- and 6-byte encodings, both signs at the 2**39 / 2**40 boundaries; thorough adds 7-byte ones), larger ones outside", "float": "finite reals (symbolic) + concrete nan / inf / -0.0 (thorough: -inf, 0.0, 5e-324)", "bigint": "2**31 < |g| <= 2**40; pairs of two negative big ints: 2**31 < |g| < 2**31 + 2**17"},
    "thorough": {"skeletons": list(SKEL_QUICK) + list(SKEL_MORE), "pairs": "all unordered pairs incl. self", "str": "<= 4 ASCII chars in pair queries; <= 2 arbitrary code points in total.*any queries", "int": "as quick", "float": "as quick"},
}
BUDGET_S = {"thorough": 3900}  # wall budget of the thorough tier: queries not started by then are reported as not run
LAST_DETAIL = [""]
INT_BOUND = 2 ** 71


def canon(v):
    """Structural value modulo the documented identifications."""
    if v is None:
        return ("none",)
    if isinstance(v, bool):
        return ("num", int(v))
    if isinstance(v, int):
        return ("num", v)
    if isinstance(v, float):
        if h.is_concrete(v):
            import math

            if v != v:
                return ("nan",)
            if v == 0.0 and math.copysign(1.0, v) < 0:
                return ("fnegzero",)
            return ("fnum", v)
        return ("fnum", v)  # symbolic floats are reals: no nan, no signed zero
    if isinstance(v, str):
        return ("str", v)
    if isinstance(v, PurePosixPath):
        return ("str", str(v))
    if isinstance(v, (datetime.datetime, datetime.date, datetime.time, datetime.timedelta)):
        return ("str", repr(v))
    if isinstance(v, (list, tuple)):
        return ("seq", [canon(e) for e in v])
    if isinstance(v, dict):
        return ("dict", [(canon(k), canon(e)) for (k, e) in v.items()])
    if dataclasses.is_dataclass(v):
        return ("dataclass", type(v).__name__, [(f.name, canon(getattr(v, f.name))) for f in dataclasses.fields(v)])
    return ("other", id(v))


# ---------------------------------------------------------------------------
# Known finding "untagged encodings": dds_hash has no type tags, so values of different types whose
# encodings coincide collide. rewrite(v, rule) maps a value to the value of another type it is encoded
# like; a counterexample (x, y) belongs to rule R iff x and y are not equivalent but become so after
# rewriting both with R. Anything else is a new violation.

RULES = ["empty", "none", "int4", "seqdigest", "dictpairs", "dataclass"]


def rewrite(v, rule):
    if rule == "none" and v is None:
        return "__DDS_NONE__"
    if rule == "int4" and isinstance(v, str):
        # a string whose UTF-8 encoding has 4 bytes is encoded like the 32-bit integer with these bytes
        if len(v) == 4 and v.isascii():
            return ((ord(v[0]) * 256 + ord(v[1])) * 256 + ord(v[2])) * 256 + ord(v[3])
        if h.is_concrete(v):
            b = v.encode("utf-8", "surrogatepass")
            if len(b) == 4:
                return int.from_bytes(b, "big", signed=True)
        return v
    if isinstance(v, (list, tuple)):
        items = [rewrite(e, rule) for e in v]
        if rule == "empty" and not items:
            return ""
        if rule == "seqdigest" and items:
            return "|".join(fa.dds_hash(e) for e in items)
        return items
    if isinstance(v, dict):
        if rule == "empty" and not v:
            return ""
        if rule in ("dictpairs", "seqdigest"):
            pairs = [fa.dds_hash(k) + "|" + fa.dds_hash(rewrite(e, rule)) for (k, e) in v.items()]
            return rewrite(pairs, "seqdigest") if rule == "seqdigest" else pairs
        return type(v)((k, rewrite(e, rule)) for (k, e) in v.items())
    if dataclasses.is_dataclass(v) and not isinstance(v, type):
        if rule == "dataclass":
            # a field value is hashed twice (digest of its digest), i.e. like a one-element list: DC(a=v) is encoded like {'a': [v]}
            return dict((f.name, [rewrite(getattr(v, f.name), rule)]) for f in dataclasses.fields(v))
        return type(v)(**dict((f.name, rewrite(getattr(v, f.name), rule)) for f in dataclasses.fields(v)))
    return v


def known_rule(sel, args, rule):
    """Predicate of known_findings.jsonl: the pair of values built from `args` collides because of `rule`."""
    x = _build(sel["a"], _get(args, "x"))
    y = _build(sel["b"], _get(args, "y"))
    if equivalent(x, y):
        return False

    def same(rules):
        try:
            u, w = x, y
            for r in rules:
                u, w = rewrite(u, r), rewrite(w, r)
            return canon(u) == canon(w)
        except (DDSException, TypeError):
            return False

    if same([rule]):
        return True
    # two classes combined (e.g. a dataclass whose field holds a 4-byte str vs a dict holding the int with these bytes):
    # attributed to `rule` only if no single rule explains the pair
    if any(same([q]) for q in RULES if q != rule):
        return False
    return any(same([rule, q]) or same([q, rule]) for q in RULES if q != rule)


def known_hex(sel, args):
    return True  # hex.* queries construct exactly the seqdigest class


def _num_same(a, b):
    # bool = int is documented; int vs float are different types with different encodings
    return a == b


def equivalent(x, y):
    cx, cy = canon(x), canon(y)
    return cx == cy


def _build(expr, leaves):
    ns = dict(NS)
    ns.update(leaves)
    return eval(expr, {"__builtins__": {}}, ns)


def _hash(v):
    """dds_hash outcome: ('ok', digest) | ('dds', code) | ('low', exception type name)."""
    try:
        return ("ok", fa.dds_hash(v))
    except DDSException as e:
        return ("dds", e.error_code)
    except Exception as e:  # a low-level exception escaping dds_hash
        return ("low", type(e).__name__)


def setup_query(sel):
    hashmodel.install()


def _strs_ok(n, *ss):
    for s in ss:
        if len(s) > n:
            return False
    return True


import re

_LEAF_RE = re.compile(r"\b(i0|i1|s0|s1|b0|f0|k0|k1|g0)\b")
_TYPES = {"i": "int", "s": "str", "b": "bool", "f": "float", "k": "int", "g": "int"}
_DEFAULTS = {"i0": 0, "i1": 0, "s0": "", "s1": "", "b0": False, "f0": 0.0, "k0": 0, "k1": 0, "g0": 2 ** 31 + 1}


def _leaves(expr):
    out = []
    for m in _LEAF_RE.findall(expr):
        if m not in out:
            out.append(m)
    return out


def _pres(names, strlen, anystr=False, gnarrow=False):
    pres = []
    for n in names:
        base = n[-2:]
        if base[0] == "s":
            pres.append("len(%s) <= %d" % (n, strlen) + ("" if anystr else " and %s.isascii()" % n))
        elif base[0] == "i":
            pres.append("-2**31 <= %s < 2**31" % n)
        elif base[0] == "k":
            pres.append("0 <= %s < 9" % n)
        elif base[0] == "g":
            pres.append(("2**31 < %s < 2**31 + 2**17" if gnarrow else "2**31 < %s <= 2**40") % n)
    return pres


def make_fn(fn, sel, tag):
    if fn == "pair":
        xs = ["x" + l for l in _leaves(sel["a"])]
        ys = ["y" + l for l in _leaves(sel["b"])]
        params = [(n, _TYPES[n[1]]) for n in xs + ys]
        return h.gen_fn(tag, "pair", params, _pres(xs + ys, sel["strlen"], gnarrow=sel.get("gnarrow", False)), "harness.C05", "pair_impl")
    if fn == "total":
        ls = _leaves(sel["a"])
        params = [(n, _TYPES[n[0]]) for n in ls] + [("mx", "int")]
        return h.gen_fn(tag, "total", params, _pres(ls, 2, sel.get("anystr")) + ["mx >= 0"], "harness.C05", "total_impl")
    return globals()[fn]


def _get(a, prefix):
    return dict((k, a.get(prefix + k, _DEFAULTS[k])) for k in _DEFAULTS)


def _special_float(a):
    # symbolic floats stand for finite reals; nan / inf / -0.0 are separate concrete skeletons
    for k, v in a.items():
        if k[-2] == "f" and (v != v or v == NS["INF"] or v == NS["NINF"]):
            return True
    return False


def pair_impl(a):
    h.enter()
    hashmodel.MODEL.reset()  # the block predicates hash too: same model state on every path
    if _special_float(a) or h.blocked(**a):
        return True
    hashmodel.MODEL.reset()
    x = _build(h.SEL["a"], _get(a, "x"))
    y = _build(h.SEL["b"], _get(a, "y"))
    hx = _hash(x)
    hy = _hash(y)
    if hx[0] != "ok" or hy[0] != "ok":
        return True  # totality is decided by total.*
    if hx[1] != hy[1]:
        return h.verdict(True)
    return h.verdict(equivalent(x, y))


def total_impl(a):
    h.enter()
    if _special_float(a) or h.blocked(**a):
        return True
    mx = a["mx"]
    hashmodel.MODEL.reset()
    cfg._options_values["hash.max_sequence_size"] = mx
    try:
        x = _build(h.SEL["a"], _get(a, ""))
        r = _hash(x)
    finally:
        cfg._options_values["hash.max_sequence_size"] = 10000
    ok = True
    if r[0] == "low":
        ok = False
    elif r[0] == "dds":
        if r[1] not in (DDSErrorCode.TYPE_NOT_SUPPORTED, DDSErrorCode.SEQUENCE_TOO_LONG):
            ok = False
        if r[1] == DDSErrorCode.SEQUENCE_TOO_LONG and not _too_long(x, mx):
            ok = False
        if r[1] == DDSErrorCode.TYPE_NOT_SUPPORTED and not h.SEL.get("unsupported"):
            ok = False
    else:
        if not isinstance(r[1], str) or _too_long(x, mx) or h.SEL.get("unsupported"):
            ok = False
    if not ok and not h.TWIN:
        LAST_DETAIL[0] = "outcome %r for %r" % (r, h.SEL["a"])
    return h.verdict(ok)


def _too_long(v, mx):
    if isinstance(v, (list, tuple, dict)):
        if len(v) > mx:
            return True
        it = v.values() if isinstance(v, dict) else v
        return any(_too_long(e, mx) for e in it)
    if dataclasses.is_dataclass(v):
        fs = dataclasses.fields(v)
        return len(fs) > mx or any(_too_long(getattr(v, f.name), mx) for f in fs)
    return False


def hexq(i0: int, s0: str) -> bool:
    """
    pre: len(s0) <= 2 and s0.isascii()
    post: _
    """
    # the "[x] vs hexdigest(x)" class: the 64-character string is built from the digest itself
    h.enter()
    if h.blocked(i0=i0, s0=s0):
        return True
    hashmodel.MODEL.reset()
    leaf = i0 if h.SEL["leaf"] == "int" else s0
    inner = fa.dds_hash(leaf)
    a = [leaf]
    b = inner  # a plain str equal to the digest of the element
    return h.verdict(fa.dds_hash(a) != fa.dds_hash(b) or equivalent(a, b))


def _skels(tier):
    sk = OrderedDict(SKEL_QUICK)
    if tier == "thorough":
        sk.update(SKEL_MORE)
    return sk


def queries(tier):
    qs = []
    sk = _skels(tier)
    names = list(sk)
    for name, expr in list(sk.items()) + list(TOTAL_ONLY.items()):
        sel = {"a": expr}
        if name.endswith("any"):
            sel["anystr"] = True
        if name in ("unsupported", "list_u", "bytes", "set"):
            sel["unsupported"] = True
        qs.append({"id": "total.%s" % name, "fn": "total", "sel": sel, "timeout": 120 if tier == "quick" else 400})
    for ia, a in enumerate(names):
        for b in names[ia:]:
            nstr = len([l for l in _leaves(sk[a]) + _leaves(sk[b]) if l[0] == "s"])
            sl = 4 if (nstr <= 1 or tier == "thorough") else (3 if nstr == 2 else 2)
            sel = {"a": sk[a], "b": sk[b], "strlen": sl}
            if "-g0" in sk[a] and "-g0" in sk[b]:
                sel["gnarrow"] = True  # two negative big ints: z3 needs a narrow range for the byte extraction (stated bound)
            qs.append({"id": "pair.%s~%s" % (a, b), "fn": "pair", "sel": sel, "timeout": 150 if tier == "quick" else 600, "twin_timeout": 30})
    qs.append({"id": "hex.int", "fn": "hexq", "sel": {"leaf": "int"}, "timeout": 60})
    qs.append({"id": "hex.str", "fn": "hexq", "sel": {"leaf": "str"}, "timeout": 60})
    return qs


def functions_encoded():
    return FUNCTIONS_ENCODED


# ---------------------------------------------------------------------------
# replay with the real hashlib and the real struct


def replay(sel, args, fn):
    import hashlib
    import struct
    import importlib

    fa.hashlib = hashlib
    fa.struct = struct
    if fn == "pair":
        a = args
        x = _build(sel["a"], _get(a, "x"))
        y = _build(sel["b"], _get(a, "y"))
        hx, hy = _hash(x), _hash(y)
        if hx[0] == "ok" and hy[0] == "ok" and hx[1] == hy[1] and not equivalent(x, y):
            return {"reproduced": True, "detail": "dds_hash(%r) == dds_hash(%r) == %s with real SHA-256, values not identified" % (x, y, hx[1][:16])}
        return {"reproduced": False, "detail": "real hashes: %r %r" % (hx, hy)}
    if fn == "total":
        a = args
        cfg._options_values["hash.max_sequence_size"] = a["mx"]
        try:
            x = _build(sel["a"], _get(a, ""))
            r = _hash(x)
        finally:
            cfg._options_values["hash.max_sequence_size"] = 10000
        if r[0] == "low":
            return {"reproduced": True, "detail": "dds_hash(%r) raises %s (low-level exception, not a coded DDS error)" % (x, r[1])}
        bad = None
        if r[0] == "dds":
            if r[1] == DDSErrorCode.SEQUENCE_TOO_LONG and not _too_long(x, a["mx"]):
                bad = "SEQUENCE_TOO_LONG for a value within hash.max_sequence_size=%d" % a["mx"]
            elif r[1] == DDSErrorCode.TYPE_NOT_SUPPORTED and not sel.get("unsupported"):
                bad = "TYPE_NOT_SUPPORTED for a supported value"
            elif r[1] not in (DDSErrorCode.TYPE_NOT_SUPPORTED, DDSErrorCode.SEQUENCE_TOO_LONG):
                bad = "unexpected error code %r" % (r[1],)
        else:
            if _too_long(x, a["mx"]):
                bad = "size guard did not fire (hash.max_sequence_size=%d)" % a["mx"]
            elif sel.get("unsupported"):
                bad = "unsupported value was hashed"
        if bad:
            return {"reproduced": True, "detail": "dds_hash(%r): %s" % (x, bad)}
        return {"reproduced": False, "detail": "real outcome %r" % (r,)}
    if fn == "hexq":
        leaf = args["i0"] if sel["leaf"] == "int" else args["s0"]
        inner = fa.dds_hash(leaf)
        if fa.dds_hash([leaf]) == fa.dds_hash(inner):
            return {"reproduced": True, "detail": "dds_hash([%r]) == dds_hash(%r) (the string equal to the element's digest)" % (leaf, inner)}
        return {"reproduced": False, "detail": "no collision with real SHA-256"}
    return None
