"""
C19 - the DBFS store honours its commit type and keeps legacy blobs readable.

Real code executed symbolically: dds._api.set_store('dbfs', ...), dds.codecs.databricks (CommitType.parse, DBFSURI, DBFSStore: all methods),
the built-in codecs, the evaluation and dds.load - against an in-process fake of dbutils.fs over the file-system model; the
analysis of the concrete pipeline runs natively.

Queries
  ctype          commit_type given as one of the documented names / enum names / values in a solver-chosen letter case, None, or an
                 unknown name: documented names are accepted and select the documented behaviour, unknown names end in a DDSException.
  run.<type>     two evaluations of a three-path pipeline under each commit type; the versions of its two tracked variables in both steps
                 and the payload are solver variables: keep returns the plain values; 'full' leaves under the data directory a byte-identical
                 copy of every kept result plus the redirect record, 'links only' just the record, 'none' nothing; load works (and returns the
                 latest value) exactly when the record exists; also from a fresh process.
  legacy         a blob of kind K (string / bytes / pickle) whose metadata is rewritten to the legacy reference dbfs.K decodes to the
                 original (symbolic) value.
"""
import json

from vlib import h, tick
from vlib.models import fsmodel, fastenv, dbutils_fake

h.quiet_logs()

import dds
import dds._api as api
import dds.codecs.databricks as db
from dds.structures import DDSException

import vpipes.p5 as p5

PROPERTY = "C19"
EXPLANATION = "C19: DBFS store against a fake dbutils over the file-system model; commit type spelling, code versions per step and payload are solver variables."
STUBBED_NAMES = dict(fsmodel.STUBBED_NAMES, **{"tempfile": ["dds._api", "dds.codecs.databricks"]})
ASSUMPTIONS = [fastenv.ASSUMPTION, "fake dbutils.fs (cp / head / put / rm over the model; parents created implicitly; errors as exceptions): its fidelity to Databricks cannot be validated offline", "tempfile inside dds.codecs.databricks creates its directory in the model", "clock stub"]
OUTSIDE = ["Spark / Delta paths (dbfs.pyspark codec)", "real DBFS semantics (eventual consistency, permissions)", "pandas"]
FUNCTIONS_ENCODED = ["dds._api.set_store", "dds.codecs.databricks.CommitType.parse", "dds.codecs.databricks.DBFSURI.*", "dds.codecs.databricks.DBFSStore.*", "dds.codecs.builtins.*", "dds._api._eval_new_ctx", "dds._api.load"]
BOUNDS = {"quick": {"commit types": ["none", "links_only", "full"] , "spellings": "documented names, enum names, enum values x lower / upper / capitalised", "history": "2 evaluations, versions of 2 tracked variables symbolic in {1,2}", "legacy kinds": ["string", "bytes", "pickle"]}}
BOUNDS["thorough"] = dict(BOUNDS["quick"], history="3 evaluations (the restart before the last one), versions of 2 tracked variables symbolic in {1,2}")
LAST_DETAIL = [""]
INT, DATA = "dbfs:/store/int", "dbfs:/store/data"
NAMES = [("none", "NO_COMMIT"), ("links_only", "LINK_ONLY"), ("full", "FULL"), ("no_commit", "NO_COMMIT"), ("link_only", "LINK_ONLY"), ("NO_COMMIT", "NO_COMMIT"), ("LINK_ONLY", "LINK_ONLY"), ("FULL", "FULL")]
UNKNOWN = ["", "links", "all", "fulll", "none_", "commit"]


def selftest():
    return fsmodel.selftest()


def setup_query(sel):
    h.install_clock()
    fastenv.install()


def _env():
    h.fresh_process()
    dds.accept_module("vpipes")
    fs = fsmodel.FS()
    fsmodel.install(fs)
    dbu = dbutils_fake.install(fs)
    return fs, dbu


def _case(s, c):
    return s.lower() if c == 0 else (s.upper() if c == 1 else s.capitalize())


def ctype_impl(a):
    h.enter()
    if h.blocked(**a):
        return True
    fs, dbu = _env()
    k, c = a["k"], a["c"]
    if k < len(NAMES):
        name, want = _case(NAMES[k][0], c), NAMES[k][1]
    elif k == len(NAMES):
        name, want = None, "FULL"
    else:
        name, want = UNKNOWN[k - len(NAMES) - 1], "ERR"
    try:
        api.set_store("dbfs", INT, DATA, dbu, name, None)
        got = api._store_var._commit_type.name
    except DDSException:
        got = "ERR"
    except Exception as e:
        got = "LOW:" + type(e).__name__
    ok = got == want
    if not ok:
        LAST_DETAIL[0] = "set_store('dbfs', commit_type=%r) -> %s, expected %s" % (name, got, want)
    return h.verdict(ok)


def _data_files(fs):
    pre = "/dbfs/store/data/"
    return dict((k[len(pre):], fs.files[n[1]]) for k, n in fs.nodes.items() if k.startswith(pre) and n[0] == "file")


def run_impl(a):
    h.enter()
    if h.blocked(**a):
        return True
    sel = h.SEL
    ctype = sel["ctype"]
    tick.PAYLOAD.clear()
    tick.PAYLOAD.update({"p": a["pay"]})
    fs, dbu = _env()
    api.set_store("dbfs", INT, DATA, dbu, ctype, None)
    ok = True

    def bad(msg):
        LAST_DETAIL[0] = "commit_type=%s, versions %r: %s" % (ctype, [(a["va%d" % j], a["vb%d" % j]) for j in range(sel.get("steps", 2))], msg)
        import os

        if os.environ.get("VERIF_DEBUG") and not h.TWIN:
            print("DEBUG", LAST_DETAIL[0], flush=True)
        return False

    nsteps = sel.get("steps", 2)
    for step in range(nsteps):
        p5.VA = 1 if a["va%d" % step] == 1 else 2
        p5.VB = 1 if a["vb%d" % step] == 1 else 2
        extra = bool(sel.get("extra")) and step == nsteps - 1  # the last evaluation also keeps /q/a's function at /q/a2
        want = p5.plain(extra)
        if step == nsteps - 1 and sel.get("restart"):
            h.fresh_process()
            dds.accept_module("vpipes")
            api.set_store("dbfs", INT, DATA, dbu, ctype, None)
        try:
            r = dds.eval(p5.top2 if extra else p5.top)
        except DDSException as e:
            return h.verdict(bad("step %d: keep raised %s" % (step, str(e)[:100])))
        except Exception as e:
            import os, traceback

            if os.environ.get("VERIF_DEBUG"):
                traceback.print_exc()
            return h.verdict(bad("step %d: keep raised %s: %s" % (step, type(e).__name__, str(e)[:80])))
        finally:
            api._eval_ctx = None
        if r != want["top"]:
            ok = bad("step %d: keep returned %r, plain %r" % (step, r, want["top"]))
            break
        files = _data_files(fs)
        for q in (("/q/a", "/q/a2", "/q/b", "/q/c") if extra else ("/q/a", "/q/b", "/q/c")):
            rel = q[1:]
            copy = files.get(rel)
            rec = files.get("_dds_meta/" + rel)
            if ctype == "full":
                if copy != want[q].encode("utf-8"):
                    ok = bad("step %d: copy of %s under the data directory is %r, expected %r" % (step, q, copy, want[q]))
                if ok and rec is None:
                    ok = bad("step %d: no redirect record for %s" % (step, q))
            elif ctype == "links_only":
                if copy is not None:
                    ok = bad("step %d: a copy of %s was written under 'links only'" % (step, q))
                if ok and rec is None:
                    ok = bad("step %d: no redirect record for %s" % (step, q))
            else:
                if copy is not None or rec is not None:
                    ok = bad("step %d: files written under the data directory with commit type none: %r" % (step, sorted(files)))
            if not ok:
                break
            try:
                lv = ("ok", dds.load(q))
            except DDSException:
                lv = ("dds", None)
            except Exception as e:
                lv = ("exc", type(e).__name__)
            if ctype == "none":
                if lv[0] == "ok":
                    ok = bad("step %d: dds.load(%s) works without a record" % (step, q))
            elif lv != ("ok", want[q]):
                ok = bad("step %d: dds.load(%s) -> %r, the latest evaluation returned %r" % (step, q, lv, want[q]))
            if not ok:
                break
        if not ok:
            break
    if not ok and not h.TWIN:
        import os

        if os.environ.get("VERIF_DEBUG"):
            print("DEBUG", LAST_DETAIL[0], flush=True)
    return h.verdict(ok)


def legacy_impl(a):
    h.enter()
    if h.blocked(**a):
        return True
    kind = h.SEL["kind"]
    fs, dbu = _env()
    store = db.DBFSStore(db.DBFSURI.parse(INT), db.DBFSURI.parse(DATA), dbu, db.CommitType.FULL)
    v = a["s"] if kind == "string" else (a["b"] if kind == "bytes" else [None, (1, "a")][a["pk"]])
    key = "cafe01"
    store.store_blob(key, v, None)
    mp = "/dbfs/store/int/blobs/" + key + ".meta"
    meta = json.loads(fs.read_file(mp).decode("utf-8"))
    ok = meta["protocol"] == "local." + kind
    meta["protocol"] = "dbfs." + kind
    dbu.fs.put("dbfs:/store/int/blobs/" + key + ".meta", json.dumps(meta), overwrite=True)
    try:
        got = store.fetch_blob(key)
    except Exception as e:
        got = ("raised", type(e).__name__)
    ok = ok and type(got) == type(v) and got == v
    if not ok:
        LAST_DETAIL[0] = "a %s blob %r relabelled with the legacy reference dbfs.%s is read back as %r" % (kind, v, kind, got)
    if ok:
        # committing a path to the legacy blob under 'full': byte-identical copy + record, and the path resolves
        from collections import OrderedDict

        try:
            store.sync_paths(OrderedDict([("/lg/p", key)]))
            files = _data_files(fs)
            blob = fs.read_file("/dbfs/store/int/blobs/" + key)
            if files.get("lg/p") != blob or "_dds_meta/lg/p" not in files or store.fetch_paths(["/lg/p"]).get("/lg/p") != key:
                ok = False
                LAST_DETAIL[0] = "committing a path to a blob with the legacy reference dbfs.%s under 'full' leaves %r" % (kind, sorted(files))
        except Exception as e:
            ok = False
            LAST_DETAIL[0] = "committing a path to a blob with the legacy reference dbfs.%s under 'full' raises %s" % (kind, type(e).__name__)
    return h.verdict(ok)


def make_fn(fn, sel, tag):
    if fn == "ctype":
        return h.gen_fn(tag, "ctype", [("k", "int"), ("c", "int")], ["0 <= k <= %d" % (len(NAMES) + len(UNKNOWN)), "0 <= c <= 2"], "harness.C19", "ctype_impl")
    if fn == "run":
        n = sel.get("steps", 2)
        params = [(v % j, "int") for j in range(n) for v in ("va%d", "vb%d")] + [("pay", "str")]
        pres = ["1 <= va%d <= 2 and 1 <= vb%d <= 2" % (j, j) for j in range(n)] + ["len(pay) <= 1 and pay.isascii()"]
        return h.gen_fn(tag, "run", params, pres, "harness.C19", "run_impl")
    kind = sel["kind"]
    if kind == "string":
        return h.gen_fn(tag, "legacy", [("s", "str")], ["len(s) <= 2"], "harness.C19", "legacy_impl")
    if kind == "bytes":
        return h.gen_fn(tag, "legacy", [("b", "bytes")], ["len(b) <= 2"], "harness.C19", "legacy_impl")
    return h.gen_fn(tag, "legacy", [("pk", "int")], ["0 <= pk <= 1"], "harness.C19", "legacy_impl")


def queries(tier):
    qs = [{"id": "ctype", "fn": "ctype", "sel": {}, "timeout": 300}]
    for ct in ("none", "links_only", "full"):
        for restart in (0, 1):
            qs.append({"id": "run.%s.%s" % (ct, "restart" if restart else "same"), "fn": "run", "sel": {"ctype": ct, "restart": restart, "steps": 2 if tier == "quick" else 3}, "timeout": 600 if tier == "quick" else 1800})
    # the last evaluation adds a path for a blob that an already registered path designates (same key, two paths in one commit)
    for ct in ("links_only", "full"):
        qs.append({"id": "run.%s.twopaths" % ct, "fn": "run", "sel": {"ctype": ct, "restart": 0, "steps": 2, "extra": True}, "timeout": 600})
    for kind in ("string", "bytes", "pickle"):
        qs.append({"id": "legacy.%s" % kind, "fn": "legacy", "sel": {"kind": kind}, "timeout": 300})
    return qs


def functions_encoded():
    return FUNCTIONS_ENCODED


def replay(sel, args, fn):
    # there is no real Databricks: the counterexample is re-executed concretely against the same fake ("replayed against the fake only")
    h.SEL.clear()
    h.SEL.update(sel)
    setup_query(sel)
    ok = {"ctype": ctype_impl, "run": run_impl, "legacy": legacy_impl}[fn](dict(args))
    return {"reproduced": not ok, "detail": ("(fake dbutils) " + LAST_DETAIL[0]) if not ok else "fake dbutils: behaves as documented"}
