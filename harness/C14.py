"""
C14 - exactly the accepted modules are tracked.

(a) kernel dds._eval_ctx.EvalMainContext.is_authorized_path
    z3.<d>.<n>   direct z3 query generated from the function's current AST: path of d segments and n accepted
                 names are free strings; result <=> some non-empty segment-prefix joined by dots is accepted.
    ch.<d>       CrossHair on the real method: depth, accepted depth, number of filler packages, relation of the
                 accepted name to the path (true prefix / string-prefix-confusable / unrelated) as solver variables.
(b) package templates: see harness.C14b (whole analysis across the accepted / non-accepted boundary).
"""
import os
from pathlib import PurePosixPath

from vlib import h

h.quiet_logs()

import dds._eval_ctx as ectx
from dds.structures import CanonicalPath

PROPERTY = "C14"
STUBBED_NAMES_TEMPLATES = True
EXPLANATION = "C14 kernel: is_authorized_path against the segment-prefix specification, as a direct z3 string query generated from the method's AST (free segment and package names) and by symbolic execution of the method itself."
FUNCTIONS_ENCODED = ["dds._eval_ctx.EvalMainContext.is_authorized_path"]
BOUNDS = {
    "quick": {"z3": "path depth 1..7 x 1..8 accepted names, all names free strings (unbounded length)", "crosshair": "depth 1..6 x accepted depth 1..6 x fillers 0..40 x 4 relations (true prefix / string-prefix-confusable / unrelated / nested accepted pair) over the alphabet {a, ab, b}"},
    "thorough": {"z3": "path depth 1..7 x 1..44 accepted names, all names free strings (unbounded length)", "crosshair": "depth 1..6 x accepted depth 1..6 x fillers 0..40 x 4 relations (true prefix / string-prefix-confusable / unrelated / nested accepted pair) over the alphabet {a, ab, b}"},
}
OUTSIDE = ["accepted package names that are empty strings (not a realistic configuration; the current loop matches the empty prefix against them)", "segments containing '.' or '/'", "paths deeper than 7"]
ASSUMPTIONS = ["validity predicate: accepted names are non-empty; path segments are non-empty and contain neither '.' nor '/'", "ch.* queries: depth / counts are realised by indexing, i.e. enumerated through the solver"]
STUBBED_NAMES = None
ALPHA = ["a", "ab", "b"]
SEGS = ["a", "ab", "b", "a", "ab", "b", "a"]


def spec(parts, accepted):
    return any(".".join(parts[:k]) in accepted for k in range(1, len(parts) + 1))


def real(parts, accepted):
    ctx = ectx.EvalMainContext("m", whitelisted_packages=set(accepted), start_globals={}, resolved_references={})
    return ctx.is_authorized_path(CanonicalPath(PurePosixPath("/".join(parts))))


# ---------------------------------------------------------------- direct z3


def _encode(d, n):
    import z3
    from vlib import z3q

    parts = [z3.String("p%d" % i) for i in range(d)]
    ws = [z3.String("w%d" % i) for i in range(n)]
    env = {
        "self": z3q.Obj(whitelisted_packages=z3q.SymSet(ws)),
        "cp": z3q.Obj(_path=z3q.Obj(parts=z3q.SymList(parts))),
    }
    got = z3q.encode_function(ectx.EvalMainContext.is_authorized_path, env)
    dot = z3.StringVal(".")
    want = z3.BoolVal(False)
    pre = None
    for k in range(1, d + 1):
        pre = parts[k - 1] if pre is None else z3.Concat(pre, dot, parts[k - 1])
        want = z3.Or(want, z3.Or([pre == w for w in ws]))
    valid = []
    for p in parts:
        valid += [z3.Length(p) >= 1, z3.Not(z3.Contains(p, dot)), z3.Not(z3.Contains(p, z3.StringVal("/")))]
    for w in ws:
        valid.append(z3.Length(w) >= 1)
    return parts, ws, got, want, valid


def z3_auth(sel, twin, blocks, timeout, block_args=None):
    import z3

    d, n = sel["d"], sel["n"]
    parts, ws, got, want, valid = _encode(d, n)
    s = z3.Solver()
    s.set("timeout", int(timeout * 1000))
    s.add(valid)
    if not twin:
        s.add(got != want)
    r = str(s.check())
    if r == "unsat":
        return {"state": "CONFIRMED", "message": "unsat: encoding == specification for all strings", "args": None}
    if r == "sat":
        m = s.model()
        args = {"parts": [m.eval(p, model_completion=True).as_string() for p in parts], "accepted": [m.eval(w, model_completion=True).as_string() for w in ws]}
        return {"state": "REFUTED", "message": "sat", "args": args}
    return {"state": "UNKNOWN", "message": "solver answered %s" % r, "args": None}


def selftest():
    """Serval-style validation of the translator: concrete vectors through the real method and the encoding."""
    import z3

    vectors = [
        (["dds_tests", "test_basic", "f"], ["dds", "__main__", "__global__", "dds_tests"]),
        (["dds_tests_assets", "x"], ["dds", "dds_tests"]),
        (["a", "b", "c", "d", "e"], ["a.b.c.d", "x", "y", "z"]),
        (["a", "b", "c", "d", "e"], ["a.b.c.d.e"]),
        (["a"], ["a"]),
        (["a", "b"], ["b"]),
        (["numpy", "core"], ["dds", "__main__", "__global__"]),
    ]
    for parts_c, acc_c in vectors:
        try:
            parts, ws, got, want, valid = _encode(len(parts_c), len(acc_c))
        except Exception as e:
            return None  # translator refusal is reported by the queries as inconclusive
        sub = [(p, z3.StringVal(v)) for p, v in zip(parts, parts_c)] + [(w, z3.StringVal(v)) for w, v in zip(ws, acc_c)]
        enc = z3.is_true(z3.simplify(z3.substitute(got, *sub)))
        r = real(parts_c, acc_c)
        if enc != r:
            return "z3 encoding of is_authorized_path disagrees with the real method on %r / %r: encoding %s, real %s" % (parts_c, acc_c, enc, r)
    return None


# ---------------------------------------------------------------- CrossHair on the real method


def _case(d, a, n, r):
    parts = SEGS[:d]
    if r == 0:
        acc = ".".join(SEGS[:a])
    elif r == 1:
        base = SEGS[:a]
        last = base[-1]
        base = base[:-1] + [{"a": "ab", "ab": "a", "b": "ab"}[last]]
        acc = ".".join(base)
    elif r == 2:
        acc = ".".join(["zz"] + SEGS[1:a])
    else:
        # two accepted packages, one nested in the other, and a module of the outer one that sorts after the inner one
        acc = ".".join(SEGS[:a])
        accepted = [acc, acc + ".aa"] + ["pkg%d" % i for i in range(n)]
        return parts, accepted
    accepted = [acc] + ["pkg%d" % i for i in range(n)]
    return parts, accepted


def kern(a: int, n: int, r: int) -> bool:
    """
    pre: 1 <= a <= 6
    pre: 0 <= n <= 40
    pre: 0 <= r <= 3
    post: _
    """
    h.enter()
    d = h.SEL["d"]
    if h.blocked(a=a, n=n, r=r):
        return True
    parts, accepted = _case(d, a, n, r)
    return h.verdict(real(parts, accepted) == spec(parts, accepted))


# ---------------------------------------------------------------- (b) package templates across the accepted / non-accepted boundary


def make_fn(fn, sel, tag):
    if fn == "hist":
        import harness.C01 as base

        ps = base._leaf_params(sel)
        return h.gen_fn(tag, "hist", [(n, t) for (n, t, _p) in ps], [p for (_n, _t, p) in ps if p], "harness.C14", "hist_impl")
    if fn == "refuse":
        return h.gen_fn(tag, "refuse", [("k", "int")], ["0 <= k <= 1"], "harness.C14", "refuse_impl")
    return globals()[fn]


def setup_query(sel):
    if sel.get("template"):
        import harness.C01 as base

        base.setup_query(sel)


def hist_impl(a):
    import harness.C01 as base
    import harness.C02 as c02
    from vlib.templates import T

    h.enter()
    if h.blocked(**a):
        return True
    sel = h.SEL
    if sel.get("accepted"):
        T[sel["template"]].accepted = list(sel["accepted"])
    ok, detail, _w = base.run_history(sel, a, on_step=c02._checker(sel))
    if not ok and not h.TWIN:
        LAST_DETAIL[0] = detail
    return h.verdict(ok)


def refuse_impl(a):
    """A data function defined in a non-accepted module is refused with an error naming the module; no user code runs."""
    import harness.C01 as base
    from vlib.templates import T
    from vlib.world import World
    from vlib import tick
    import dds
    from dds.structures import DDSException

    h.enter()
    t = T["T14"]
    w = World(t, "memory")
    fn = w.real.mods["tx.lib"].__dict__["xf"]
    tick.reset()
    try:
        if a["k"] == 0:
            fn()
        else:
            dds.eval(fn)
        ok = False
        LAST_DETAIL[0] = "a data function of the non-accepted module tx.lib was evaluated untracked"
    except DDSException as e:
        ok = "tx" in str(e) and not tick.LOG
        if not ok:
            LAST_DETAIL[0] = "refusal does not name the module or user code ran: %r / log %r" % (str(e)[:120], list(tick.LOG))
    finally:
        import dds._api as api

        api._eval_ctx = None
    return h.verdict(ok)


BUDGET_S = {"thorough": 900}  # wall budget of the thorough tier: queries not started by then are reported as not run
LAST_DETAIL = [""]


def queries(tier):
    qs = []
    nmax = 8 if tier == "quick" else 44
    for d in range(1, 8):
        for n in range(1, nmax + 1):
            qs.append({"id": "z3.d%d.n%d" % (d, n), "kind": "z3", "fn": "z3_auth", "sel": {"d": d, "n": n}, "timeout": 60, "no_twin": (n % 4 != 1)})
    for d in range(1, 7):
        qs.append({"id": "ch.d%d" % d, "fn": "kern", "sel": {"d": d}, "timeout": 300})
    # (b) templates: values on both sides of the boundary are solver variables
    def hq(qid, steps, accepted, timeout=600):
        # edits are the subject here: the tracked variables are pinned (their values are the subject of pkg.value.*)
        fixed = {"V": [1, 1], "U": [2, 2], "W": [3, 3], "D": [4, 4], "F": [5, 5]}
        qs.append({"id": qid, "fn": "hist", "sel": {"template": "T14", "steps": steps, "leaf_type": {}, "nargs": False, "store": "memory", "fixed": fixed, "accepted": accepted}, "timeout": timeout})

    def hv(qid, var, accepted):
        fixed = dict((v, [0, 0]) for v in ("V", "U", "W", "D", "F") if v != var)
        qs.append({"id": qid, "fn": "hist", "sel": {"template": "T14", "steps": [{}, {}], "leaf_type": {}, "nargs": False, "store": "memory", "fixed": fixed, "accepted": accepted}, "timeout": 600})

    acc = ["tq2", "ta.inner", "tq"]
    hv("pkg.value.V", "V", acc)  # read by a function called by its fully qualified name through the non-accepted parent package ta
    hv("pkg.value.U", "U", acc)  # read by a function called through `from ta.inner import leaf as lf`
    hv("pkg.value.F", "F", acc)  # read by a function of an accepted module that is only reached through the re-export of a non-accepted module
    hv("pkg.value.D", "D", acc)  # variable three package levels below the accepted prefix
    hv("pkg.value.W", "W", acc)  # variable of tq2, accepted BEFORE tq (a name that extends it)
    hv("pkg.value.W.rev", "W", ["tq", "ta.inner", "tq2"])
    hq("pkg.body.leaf", [{}, {"variants": {"ta.inner.leaf": "b"}, "leaves_from": 0, "expect": {"executed": ["f"]}}], acc)
    hq("pkg.body.deep", [{}, {"variants": {"ta.inner.sub.deeper.deepest": "b"}, "leaves_from": 0, "expect": {"executed": ["g", "f"]}}], acc)
    hq("pkg.body.tq2", [{}, {"variants": {"tq2.helpers": "b"}, "leaves_from": 0, "expect": {"executed": ["f"], "not_executed": ["g"], "same_sig": [0, ["/t14/g"]]}}], acc)
    hq("pkg.outside.body", [{}, {"variants": {"ta.outer": "b"}, "leaves_from": 0, "no_value_check": True, "expect": {"exec_none": True, "same_sig": [0, ["/t14/f", "/t14/g"]]}}], acc)
    hq("pkg.outside.var", [{}, {"leaves_from": 0, "vary": ["Z"], "no_value_check": True, "expect": {"exec_none": True, "same_sig": [0, ["/t14/f", "/t14/g"]]}}], acc)
    qs.append({"id": "pkg.refuse", "fn": "refuse", "sel": {"template": "T14", "no_log_stub": True}, "timeout": 200})
    return qs


def functions_encoded():
    return FUNCTIONS_ENCODED


def replay(sel, args, fn):
    if fn == "hist":
        import hashlib
        import struct
        import dds.fun_args as fa
        import harness.C01 as base
        import harness.C02 as c02
        from vlib.templates import T

        fa.hashlib = hashlib
        fa.struct = struct
        if sel.get("accepted"):
            T[sel["template"]].accepted = list(sel["accepted"])
        ok, detail, _w = base.run_history(sel, args, on_step=c02._checker(sel))
        return {"reproduced": not ok, "detail": ("template T14 (accepted %r), real hashing: %s" % (sel.get("accepted"), detail)) if not ok else "real hashing: as expected"}
    if fn == "refuse":
        h.SEL.update(sel)
        ok = refuse_impl(dict(args))
        return {"reproduced": not ok, "detail": LAST_DETAIL[0] if not ok else "refused with a DDS error naming the module"}
    if fn == "z3_auth":
        parts, accepted = args["parts"], args["accepted"]
    else:
        parts, accepted = _case(sel["d"], args["a"], args["n"], args["r"])
    if any((not p) or "." in p or "/" in p for p in parts) or any(not w for w in accepted):
        return {"reproduced": False, "detail": "outside the validity predicate"}
    got, want = real(parts, accepted), spec(parts, accepted)
    if got != want:
        return {"reproduced": True, "detail": "EvalMainContext(whitelisted_packages=%r).is_authorized_path(<%s>) = %s, but %s" % (sorted(accepted), "/".join(parts), got, "a segment-prefix is accepted" if want else "no segment-prefix is accepted")}
    return {"reproduced": False, "detail": "real method agrees with the specification"}
