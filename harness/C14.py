"""
C14 - exactly the accepted modules are tracked.

(a) kernel dds._eval_ctx.EvalMainContext.is_authorized_path
    z3.<d>.<n>   direct z3 query generated from the function's current AST: path of d segments and n accepted
                 names are free strings; result <=> some non-empty segment-prefix joined by dots is accepted.
    ch.<d>       CrossHair on the real method: depth, accepted depth, number of filler packages, relation of the
                 accepted name to the path (true prefix / string-prefix-confusable / unrelated) as solver variables.
(b) package templates: see harness.C14b (whole analysis across the accepted / non-accepted boundary).
"""
import os
from pathlib import PurePosixPath

from vlib import h

h.quiet_logs()

import dds._eval_ctx as ectx
from dds.structures import CanonicalPath

PROPERTY = "C14"
EXPLANATION = "C14 kernel: is_authorized_path against the segment-prefix specification, as a direct z3 string query generated from the method's AST (free segment and package names) and by symbolic execution of the method itself."
FUNCTIONS_ENCODED = ["dds._eval_ctx.EvalMainContext.is_authorized_path"]
BOUNDS = {
    "quick": {"z3": "path depth 1..7 x 1..8 accepted names, all names free strings (unbounded length)", "crosshair": "depth 1..6 x accepted depth 1..6 x fillers 0..40 x 3 relations over the alphabet {a, ab, b}"},
    "thorough": {"z3": "path depth 1..7 x 1..44 accepted names, all names free strings (unbounded length)", "crosshair": "depth 1..6 x accepted depth 1..6 x fillers 0..40 x 3 relations over the alphabet {a, ab, b}"},
}
OUTSIDE = ["accepted package names that are empty strings (not a realistic configuration; the current loop matches the empty prefix against them)", "segments containing '.' or '/'", "paths deeper than 7"]
ASSUMPTIONS = ["validity predicate: accepted names are non-empty; path segments are non-empty and contain neither '.' nor '/'", "ch.* queries: depth / counts are realised by indexing, i.e. enumerated through the solver"]
STUBBED_NAMES = None
ALPHA = ["a", "ab", "b"]
SEGS = ["a", "ab", "b", "a", "ab", "b", "a"]


def spec(parts, accepted):
    return any(".".join(parts[:k]) in accepted for k in range(1, len(parts) + 1))


def real(parts, accepted):
    ctx = ectx.EvalMainContext("m", whitelisted_packages=set(accepted), start_globals={}, resolved_references={})
    return ctx.is_authorized_path(CanonicalPath(PurePosixPath("/".join(parts))))


# ---------------------------------------------------------------- direct z3


def _encode(d, n):
    import z3
    from vlib import z3q

    parts = [z3.String("p%d" % i) for i in range(d)]
    ws = [z3.String("w%d" % i) for i in range(n)]
    env = {
        "self": z3q.Obj(whitelisted_packages=z3q.SymSet(ws)),
        "cp": z3q.Obj(_path=z3q.Obj(parts=z3q.SymList(parts))),
    }
    got = z3q.encode_function(ectx.EvalMainContext.is_authorized_path, env)
    dot = z3.StringVal(".")
    want = z3.BoolVal(False)
    pre = None
    for k in range(1, d + 1):
        pre = parts[k - 1] if pre is None else z3.Concat(pre, dot, parts[k - 1])
        want = z3.Or(want, z3.Or([pre == w for w in ws]))
    valid = []
    for p in parts:
        valid += [z3.Length(p) >= 1, z3.Not(z3.Contains(p, dot)), z3.Not(z3.Contains(p, z3.StringVal("/")))]
    for w in ws:
        valid.append(z3.Length(w) >= 1)
    return parts, ws, got, want, valid


def z3_auth(sel, twin, blocks, timeout, block_args=None):
    import z3

    d, n = sel["d"], sel["n"]
    parts, ws, got, want, valid = _encode(d, n)
    s = z3.Solver()
    s.set("timeout", int(timeout * 1000))
    s.add(valid)
    if not twin:
        s.add(got != want)
    r = str(s.check())
    if r == "unsat":
        return {"state": "CONFIRMED", "message": "unsat: encoding == specification for all strings", "args": None}
    if r == "sat":
        m = s.model()
        args = {"parts": [m.eval(p, model_completion=True).as_string() for p in parts], "accepted": [m.eval(w, model_completion=True).as_string() for w in ws]}
        return {"state": "REFUTED", "message": "sat", "args": args}
    return {"state": "UNKNOWN", "message": "solver answered %s" % r, "args": None}


def selftest():
    """Serval-style validation of the translator: concrete vectors through the real method and the encoding."""
    import z3

    vectors = [
        (["dds_tests", "test_basic", "f"], ["dds", "__main__", "__global__", "dds_tests"]),
        (["dds_tests_assets", "x"], ["dds", "dds_tests"]),
        (["a", "b", "c", "d", "e"], ["a.b.c.d", "x", "y", "z"]),
        (["a", "b", "c", "d", "e"], ["a.b.c.d.e"]),
        (["a"], ["a"]),
        (["a", "b"], ["b"]),
        (["numpy", "core"], ["dds", "__main__", "__global__"]),
    ]
    for parts_c, acc_c in vectors:
        try:
            parts, ws, got, want, valid = _encode(len(parts_c), len(acc_c))
        except Exception as e:
            return None  # translator refusal is reported by the queries as inconclusive
        sub = [(p, z3.StringVal(v)) for p, v in zip(parts, parts_c)] + [(w, z3.StringVal(v)) for w, v in zip(ws, acc_c)]
        enc = z3.is_true(z3.simplify(z3.substitute(got, *sub)))
        r = real(parts_c, acc_c)
        if enc != r:
            return "z3 encoding of is_authorized_path disagrees with the real method on %r / %r: encoding %s, real %s" % (parts_c, acc_c, enc, r)
    return None


# ---------------------------------------------------------------- CrossHair on the real method


def _case(d, a, n, r):
    parts = SEGS[:d]
    if r == 0:
        acc = ".".join(SEGS[:a])
    elif r == 1:
        base = SEGS[:a]
        last = base[-1]
        base = base[:-1] + [{"a": "ab", "ab": "a", "b": "ab"}[last]]
        acc = ".".join(base)
    else:
        acc = ".".join(["zz"] + SEGS[1:a])
    accepted = [acc] + ["pkg%d" % i for i in range(n)]
    return parts, accepted


def kern(a: int, n: int, r: int) -> bool:
    """
    pre: 1 <= a <= 6
    pre: 0 <= n <= 40
    pre: 0 <= r <= 2
    post: _
    """
    h.enter()
    d = h.SEL["d"]
    if h.blocked(a=a, n=n, r=r):
        return True
    parts, accepted = _case(d, a, n, r)
    return h.verdict(real(parts, accepted) == spec(parts, accepted))


def queries(tier):
    qs = []
    nmax = 8 if tier == "quick" else 44
    for d in range(1, 8):
        for n in range(1, nmax + 1):
            qs.append({"id": "z3.d%d.n%d" % (d, n), "kind": "z3", "fn": "z3_auth", "sel": {"d": d, "n": n}, "timeout": 60, "no_twin": (n % 4 != 1)})
    for d in range(1, 7):
        qs.append({"id": "ch.d%d" % d, "fn": "kern", "sel": {"d": d}, "timeout": 300})
    return qs


def functions_encoded():
    return FUNCTIONS_ENCODED


def replay(sel, args, fn):
    if fn == "z3_auth":
        parts, accepted = args["parts"], args["accepted"]
    else:
        parts, accepted = _case(sel["d"], args["a"], args["n"], args["r"])
    if any((not p) or "." in p or "/" in p for p in parts) or any(not w for w in accepted):
        return {"reproduced": False, "detail": "outside the validity predicate"}
    got, want = real(parts, accepted), spec(parts, accepted)
    if got != want:
        return {"reproduced": True, "detail": "EvalMainContext(whitelisted_packages=%r).is_authorized_path(<%s>) = %s, but %s" % (sorted(accepted), "/".join(parts), got, "a segment-prefix is accepted" if want else "no segment-prefix is accepted")}
    return {"reproduced": False, "detail": "real method agrees with the specification"}
