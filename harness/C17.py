"""
C17 - results are read back with the codec that wrote them, text and bytes verbatim.

Real code executed symbolically: dds.codec.CodecRegistry (add_codec / add_file_codec / get_codec), dds.codecs.builtins (string, bytes, pickle
codecs), dds.store.LocalFileStore.store_blob / fetch_blob / has_blob over the file-system model.

Queries
  rt.<type>     store_blob(k, v); a solver-chosen sequence of up to 3 codec registrations (user codecs for str / bytes / object, as codec or
                file codec) or a fresh process (default registry rebuilt); fetch_blob(k): equal value of the same type, read with the codec
                whose reference is in the .meta file; for str / bytes the blob file holds v.encode('utf-8') / v verbatim. The content of
                v is symbolic (str: any code points; bytes: any bytes).
  registry      CodecRegistry.get_codec(type, ref) after a symbolic registration sequence: the reference wins, else the codec of the type,
                else the object codec, else a DDSException.
"""
import json

from vlib import h
from vlib.models import fsmodel

h.quiet_logs()

import dds.codec as dcodec
import dds.store as dstore
from dds.structures import DDSException, FileCodecProtocol, CodecProtocol, ProtocolRef, SupportedType
from dds.structures_utils import SupportedTypeUtils as STU

PROPERTY = "C17"
EXPLANATION = "C17: blob round trip through the codec registry over the file-system model with symbolic contents and a symbolic sequence of codec registrations between write and read."
STUBBED_NAMES = fsmodel.STUBBED_NAMES
ASSUMPTIONS = ["file-system model = POSIX as validated by the differential self-test of this run", "clock stub", "text-mode files: POSIX semantics (no newline translation on write, universal newlines on read)", "rt.*.scaled (generated only when dds.codecs.builtins / dds.codec / dds.store / dds._lru_store define module-level integer constants >= 256, i.e. buffer or chunk sizes; none on the pinned tree): the constants are set to 1 for the query and for its real-OS replay, behaviour is assumed uniform in them"]
OUTSIDE = ["pandas frames (parquet is C code writing through the real file system): not covered", "pickled values are concrete witnesses (None, a tuple, a dict): pickle is C code", "DBFS store (C19)", "strings longer than 2 code points / bytes longer than 2 (size-dependent behaviour is only reached through the scale-down of module-level size constants)"]
FUNCTIONS_ENCODED = ["dds.codec.CodecRegistry.*", "dds.codec.codec_registry", "dds.codecs.builtins.*", "dds.store.LocalFileStore.store_blob", "dds.store.LocalFileStore.fetch_blob", "dds.store.LocalFileStore.has_blob"]
BOUNDS = {"quick": {"str": "<= 1 arbitrary code point with registrations, <= 2 without", "bytes": "<= 2 arbitrary bytes", "registrations": "<= 3 out of 6 kinds, or a fresh process", "pickle": ["None", "(1, 'a')", "{'k': [1, 2]}"]}}
BOUNDS["thorough"] = dict(BOUNDS["quick"], str="<= 2 arbitrary code points with registrations, <= 3 without", bytes="<= 3 arbitrary bytes")
BUDGET_S = {"thorough": 900}  # wall budget of the thorough tier: queries not started by then are reported as not run
LAST_DETAIL = [""]
KEY = "ab12"


def selftest():
    return fsmodel.selftest()


def setup_query(sel):
    h.install_clock()


SCALE_MODULES = ["dds.codecs.builtins", "dds.codec", "dds.store", "dds._lru_store"]


def _size_constants():
    """Module-level integer constants >= 256 of the codec / store modules (buffer and chunk sizes)."""
    import importlib

    out = []
    for mn in SCALE_MODULES:
        m = importlib.import_module(mn)
        for k, v in sorted(vars(m).items()):
            if type(v) is int and v >= 256 and not k.startswith("__"):
                out.append((mn, k, v))
    return out


_SCALED = {}


def _scale():
    """rt.*.scaled: every size constant is set to 1, so that a value of 2 bytes spans several chunks (scale-down of buffer sizes;
    the replay on the real OS runs with the same setting and says so)."""
    import importlib

    for (mn, k, v) in _size_constants():
        _SCALED[(mn, k)] = v
        setattr(importlib.import_module(mn), k, 1)


def _scaled_note():
    return (" [size constants scaled to 1: %s]" % ", ".join("%s.%s (%d)" % (mn, k, v) for ((mn, k), v) in sorted(_SCALED.items()))) if _SCALED else ""


class UStr(FileCodecProtocol):
    def ref(self):
        return ProtocolRef("user.str")

    def handled_types(self):
        return [STU.from_type(str)]

    def serialize_into(self, blob, loc):
        with dstore.open(str(loc), "wb") as f:
            f.write(b"U:" + blob.encode("utf-8"))

    def deserialize_from(self, loc):
        with dstore.open(str(loc), "rb") as f:
            return "U!" + f.read()[2:].decode("utf-8")


class UStrC(CodecProtocol):
    def ref(self):
        return ProtocolRef("user.strc")

    def handled_types(self):
        return [STU.from_type(str)]

    def serialize_into(self, blob, loc):
        with dstore.open(str(loc), "wb") as f:
            f.write(b"C:" + blob.encode("utf-8"))

    def deserialize_from(self, loc):
        with dstore.open(str(loc), "rb") as f:
            return "C!" + f.read()[2:].decode("utf-8")


class UBytes(UStr):
    def ref(self):
        return ProtocolRef("user.bytes")

    def handled_types(self):
        return [STU.from_type(bytes)]


class UObj(UStrC):
    def ref(self):
        return ProtocolRef("user.obj")

    def handled_types(self):
        return [SupportedType("object"), STU.from_type(type(None))]


class UStealRef(UStr):
    """a file codec registered under the SAME reference as the built-in string codec: must not replace it"""

    def ref(self):
        return ProtocolRef("local.string")


def _register(reg, op):
    if op == 1:
        reg.add_file_codec(UStr())
    elif op == 2:
        reg.add_codec(UStrC())
    elif op == 3:
        reg.add_file_codec(UBytes())
    elif op == 4:
        reg.add_codec(UObj())
    elif op == 5:
        reg.add_file_codec(UStealRef())


PICKLED = [None, (1, "a"), {"k": [1, 2]}]
WANT_REF = {"str": "local.string", "bytes": "local.bytes", "pickle": "local.pickle"}


def rt_impl(a):
    h.enter()
    if h.blocked(**a):
        return True
    sel = h.SEL
    kind = sel["type"]
    v = a["s"] if kind == "str" else (a["b"] if kind == "bytes" else PICKLED[a["pk"]])
    h.fresh_process()
    if sel.get("scaled"):
        _scale()
    fs = fsmodel.FS()
    fsmodel.install(fs)
    store = dstore.LocalFileStore("/s/int", "/s/data")
    ok = True

    def bad(msg):
        LAST_DETAIL[0] = "%s value %r, registrations %r: %s%s" % (kind, v, [a.get("o1", sel.get("o1")), a.get("o2"), a.get("o3")], msg, _scaled_note())
        return False

    try:
        store.store_blob(KEY, v, None)
    except Exception as e:
        return h.verdict(bad("store_blob raised %s" % type(e).__name__))
    raw = fs.read_file("/s/int/blobs/" + KEY)
    meta = json.loads(fs.read_file("/s/int/blobs/" + KEY + ".meta").decode("utf-8"))
    if meta.get("protocol") != WANT_REF[kind]:
        ok = bad("written with protocol %r" % (meta.get("protocol"),))
    if ok and kind == "str" and raw != v.encode("utf-8"):
        ok = bad("the blob file holds %r, not the UTF-8 text" % (raw,))
    if ok and kind == "bytes" and raw != v:
        ok = bad("the blob file holds %r, not the bytes" % (raw,))
    if "o1" in sel:
        a = dict(a, o1=sel["o1"])
    if sel.get("noreg"):
        a = dict(a, o1=0, o2=0, o3=sel["noreg"] - 1)
    for op in (a["o1"], a["o2"], a["o3"]):
        if op == 6:
            h.fresh_process()  # another process: the default registry is rebuilt
            store = dstore.LocalFileStore("/s/int", "/s/data")
        else:
            _register(dcodec.codec_registry(), op)
    used = []
    reg = dcodec.codec_registry()
    orig = reg.get_codec

    def spy(obj_type, ref):
        c = orig(obj_type, ref)
        used.append(c)
        return c

    reg.get_codec = spy
    try:
        got = store.fetch_blob(KEY)
    except Exception as e:
        return h.verdict(bad("fetch_blob raised %s: %s" % (type(e).__name__, str(e)[:60])))
    finally:
        reg.get_codec = orig
    if ok and not (type(got) == type(v) and got == v):
        ok = bad("read back %r (%s)" % (got, type(got).__name__))
    if ok and (not used or used[-1].ref() != meta["protocol"]):
        ok = bad("read with codec %r, the metadata names %r" % (used[-1].ref() if used else None, meta["protocol"]))
    if ok and not store.has_blob(KEY):
        ok = bad("has_blob is False after store_blob")
    return h.verdict(ok)


def registry_impl(a):
    h.enter()
    if h.blocked(**a):
        return True
    h.fresh_process()
    reg = dcodec.codec_registry()
    # model of the documented rules
    by_ref = {"local.string": "local.string", "local.bytes": "local.bytes", "local.pickle": "local.pickle", "local.pandas": "local.pandas", "default.pandas_local": "local.pandas"}
    by_type = {"str": "local.string", "bytes": "local.bytes", "bytearray": "local.bytes", "NoneType": "local.pickle", "object": "local.pickle", "pandas.DataFrame": "local.pandas", "pandas.core.frame.DataFrame": "local.pandas"}
    for op in (a["o1"], a["o2"]):
        _register(reg, op)
        if op == 1:
            by_ref.setdefault("user.str", "user.str")
        elif op == 2:
            by_ref["user.strc"] = "user.strc"
            by_type["str"] = "user.strc"
        elif op == 3:
            by_ref.setdefault("user.bytes", "user.bytes")
        elif op == 4:
            by_ref["user.obj"] = "user.obj"
            by_type["object"] = "user.obj"
            by_type["NoneType"] = "user.obj"
    types = [None, "str", "bytes", "NoneType", "object", "builtins.tuple", "tq.m1.Thing"]
    refs = [None, "", "local.string", "local.bytes", "local.pickle", "user.str", "user.strc", "user.obj", "dbfs.string", "nope"]
    t, r = types[a["t"]], refs[a["r"]]
    if r:
        want = by_ref.get(r, "ERR")
    elif t is not None:
        want = by_type.get(t) or by_type.get("object") or "ERR"
    else:
        want = "ERR"
    try:
        c = reg.get_codec(SupportedType(t) if t is not None else None, ProtocolRef(r) if r is not None else None)
        got = c.ref()
        if type(c).__name__ == "UStealRef":
            got = "stolen"
    except DDSException:
        got = "ERR"
    except Exception as e:
        got = "LOW:" + type(e).__name__
    ok = got == want
    if not ok:
        LAST_DETAIL[0] = "after registrations %r: get_codec(%r, %r) -> %r, documented rules give %r" % ([a["o1"], a["o2"]], t, r, got, want)
    return h.verdict(ok)


def make_fn(fn, sel, tag):
    if fn == "rt":
        params, pres = [], []
        if not sel.get("noreg"):
            params = [("o2", "int"), ("o3", "int")]
            pres = ["0 <= o2 <= 6 and 0 <= o3 <= 6"]
        if sel["type"] == "str":
            params.append(("s", "str"))
            pres.append("len(s) <= %d" % sel.get("slen", 1))
        elif sel["type"] == "bytes":
            params.append(("b", "bytes"))
            pres.append("len(b) <= %d" % sel.get("blen", 2))
        else:
            params.append(("pk", "int"))
            pres.append("0 <= pk <= 2")
        return h.gen_fn(tag, "rt", params, pres, "harness.C17", "rt_impl")
    return h.gen_fn(tag, "registry", [("o1", "int"), ("o2", "int"), ("t", "int"), ("r", "int")], ["0 <= o1 <= 5 and 0 <= o2 <= 5", "0 <= t <= 6 and 0 <= r <= 9"], "harness.C17", "registry_impl")


def queries(tier):
    deep = tier == "thorough"
    qs = [{"id": "rt.%s.o%d" % (t, o1), "fn": "rt", "sel": dict({"type": t, "o1": o1}, **({"slen": 2, "blen": 3} if deep else {})), "timeout": 2400 if deep else 600} for t in ("str", "bytes", "pickle") for o1 in range(7)]
    # longer strings without registrations (same process / fresh process)
    qs += [{"id": "rt.str.len%d.%s" % (3 if deep else 2, "same" if nr == 1 else "fresh"), "fn": "rt", "sel": {"type": "str", "noreg": nr, "slen": 3 if deep else 2}, "timeout": 2400 if deep else 600} for nr in (1, 7)]
    # scale-down of buffer / chunk sizes: only when the codec / store modules define such constants (none on the pinned tree)
    if _size_constants():
        qs += [{"id": "rt.%s.scaled" % t, "fn": "rt", "sel": dict({"type": t, "noreg": 1, "scaled": True}, **({"slen": 2} if t == "str" else {})), "timeout": 600} for t in ("str", "bytes")]
    qs.append({"id": "registry", "fn": "registry", "sel": {}, "timeout": 600})
    return qs


def functions_encoded():
    return FUNCTIONS_ENCODED


def replay(sel, args, fn):
    """Real OS for the round trip: LocalFileStore in a temporary directory, real open()."""
    import os
    import shutil
    import tempfile

    if fn != "rt":
        return None
    fsmodel.uninstall()
    h.install_clock()
    kind = sel["type"]
    args = dict(args)
    if "o1" in sel:
        args["o1"] = sel["o1"]
    if sel.get("noreg"):
        args.update(o1=0, o2=0, o3=sel["noreg"] - 1)
    v = args["s"] if kind == "str" else (args["b"] if kind == "bytes" else PICKLED[args["pk"]])
    d = os.path.realpath(tempfile.mkdtemp(prefix="verif-c17-"))
    try:
        h.fresh_process()
        if sel.get("scaled"):
            _scale()
        store = dstore.LocalFileStore(os.path.join(d, "int"), os.path.join(d, "data"))
        store.store_blob(KEY, v, None)
        raw = open(os.path.join(d, "int", "blobs", KEY), "rb").read()
        meta = json.load(open(os.path.join(d, "int", "blobs", KEY + ".meta")))
        if kind == "str" and raw != v.encode("utf-8"):
            return {"reproduced": True, "detail": "real OS: str %r stored as %r" % (v, raw)}
        if kind == "bytes" and raw != v:
            return {"reproduced": True, "detail": "real OS: bytes %r stored as %r" % (v, raw)}
        for op in (args["o1"], args["o2"], args["o3"]):
            if op == 6:
                h.fresh_process()
                store = dstore.LocalFileStore(os.path.join(d, "int"), os.path.join(d, "data"))
            else:
                _register(dcodec.codec_registry(), op)
        try:
            got = store.fetch_blob(KEY)
        except Exception as e:
            return {"reproduced": True, "detail": "real OS: fetch_blob of a %s written as %r raises %s after registrations %r%s" % (kind, meta.get("protocol"), type(e).__name__, [args["o1"], args["o2"], args["o3"]], _scaled_note())}
        if not (type(got) == type(v) and got == v):
            return {"reproduced": True, "detail": "real OS: %s value %r written with %r is read back as %r after registrations %r%s" % (kind, v, meta.get("protocol"), got, [args["o1"], args["o2"], args["o3"]], _scaled_note())}
        return {"reproduced": False, "detail": "real OS: value round-trips"}
    finally:
        shutil.rmtree(d, ignore_errors=True)
