"""
C18 - graph export is faithful and does not perturb the evaluation.

Real code executed symbolically: dds._plotting._structure (kernel, on interaction trees whose shape attributes are solver
variables) and, at API level, dds._api._eval_new_ctx with the export hook + dds._plotting.build_graph / draw_graph on the template corpus.

Queries
  tree.<shape>   _structure(fis, refs) on a FunctionInteractions tree: for each node whether it is kept, whether it has named arguments,
                 whether it shares its signature (and subtree) with an earlier node, at the same or at another path, and which earlier
                 kept path it loads are solver variables (realised: enumeration through the solver). The returned graph must be acyclic,
                 have exactly the kept paths and the paths loaded by kept functions as nodes, a solid edge u->v exactly when v reaches
                 the keep of u through non-kept nodes only, a dashed edge exactly for v's own loads, and only dotted edges otherwise
                 (from an earlier sibling's head node to a keep with named arguments).
  tree.wide.k<k> the same specification on root -> S, c2, c3, c4 (four siblings; S kept and reached again by later siblings, so that
                 call-order edges chain); the kinds of c3, c4, whether the root is kept and whether S takes arguments are solver variables.
  export.<tpl>   evaluation with dds_export_graph (dot text parsed back) vs without: same result, same signatures, same blobs and
                 paths; every kept path is a node; the graph is acyclic.
"""
import os
from collections import OrderedDict
from pathlib import PurePosixPath

from vlib import h, tick
from vlib.models import hashmodel

h.quiet_logs()

import dds
import dds._api as api
import dds._plotting as plotting
from dds.structures import FunctionInteractions, FunctionArgContext, CanonicalPath

PROPERTY = "C18"
EXPLANATION = "C18: _structure on interaction trees with symbolic shape attributes against a declarative specification of nodes and edges; export vs no export on the template corpus."
STUBBED_NAMES = hashmodel.STUBBED_NAMES
ASSUMPTIONS = ["representation invariant of interaction trees assumed by tree.*: equal signature => equal function and subtree; a loaded path is in the resolved references or kept earlier in traversal order; kept paths do not overlap", "export.*: rendering (pydot -> graphviz) runs untraced; ideal-hash model; clock stub"]
OUTSIDE = ["tree.*: the generated trees list every call once; the trees dds builds list a kept call twice (kept call + un-kept reference to the same function) - that shape is covered by export.* on templates only", "trees deeper than 3 levels or with more than 2 calls per function (tree.wide: 4 / 5 siblings, depth 2)", "the rendered image (only the dot text is parsed back)"]
FUNCTIONS_ENCODED = ["dds._plotting._structure", "dds._plotting.build_graph", "dds._plotting.draw_graph", "dds._api._eval_new_ctx (export hook)"]
BOUNDS = {"quick": {"tree": "root + 2 calls + 1..2 calls below each (<= 7 nodes); every combination of kept flags x named-argument flags of the calls that have an earlier sibling; shared-signature (same path / other path) and load flags in separate queries; tree.wide: root + 4 siblings, the first a kept node S, each later one of 6 kinds (kept / with arguments / calling S again), 6^3 x 4 trees", "export": ["T1", "T3", "T4", "T5", "T6", "T7", "T8", "T9"]}}
BOUNDS["thorough"] = dict(BOUNDS["quick"], tree=BOUNDS["quick"]["tree"] + "; tree.wide5: root + 5 siblings (6^4 x 4 trees)")
BUDGET_S = {"thorough": 1500}  # wall budget of the thorough tier: queries not started by then are reported as not run
LAST_DETAIL = [""]


def setup_query(sel):
    hashmodel.install()
    h.install_clock()
    from vlib.models import fastenv

    if not hasattr(plotting.draw_graph, "__wrapped__"):
        plotting.draw_graph = fastenv._native(plotting.draw_graph)


# ---------------------------------------------------------------- tree model


class N:
    def __init__(self, name, kept, nargs, children=(), loads=()):
        self.name = name
        self.kept = kept
        self.path = ("/n/" + name) if kept else None
        self.sig = "sig_" + name
        self.nargs = nargs
        self.children = list(children)
        self.loads = list(loads)

    def fis(self):
        args = OrderedDict(("a%d" % i, "h%d" % i) for i in range(self.nargs))
        return FunctionInteractions(
            arg_input=FunctionArgContext(args, None),
            fun_body_sig="b_" + self.name,
            fun_return_sig=self.sig,
            external_deps=[],
            parsed_body=[c.fis() for c in self.children],
            store_path=self.path,
            fun_path=CanonicalPath(PurePosixPath("m/" + self.name)),
            indirect_deps=list(self.loads),
        )


def _heads(n):
    if n.kept:
        return [n]
    out = []
    for c in n.children:
        for x in _heads(c):
            if x not in out:
                out.append(x)
    return out


def _walk(n):
    yield n
    for c in n.children:
        for x in _walk(c):
            yield x


def _spec(root, refs):
    nodes = set()
    solid, dashed = set(), set()
    dotted_ok = set()
    for n in _walk(root):
        if n.kept:
            nodes.add(n.path)
            for c in n.children:
                for u in _heads(c):
                    if u.path != n.path:
                        solid.add((u.path, n.path))
            for p in n.loads:
                nodes.add(p)
                dashed.add((p, n.path))
        cs = n.children
        for j in range(1, len(cs)):
            if cs[j].nargs >= 1:
                for i in range(j):
                    for a in _heads(cs[i]):
                        for b in _heads(cs[j]):
                            dotted_ok.add((a.path, b.path))
    return nodes, solid, dashed, dotted_ok


def _acyclic(edges):
    adj = {}
    for (a, b) in edges:
        adj.setdefault(a, set()).add(b)
    state = {}

    def dfs(x):
        state[x] = 1
        for y in adj.get(x, ()):
            if state.get(y) == 1:
                return False
            if y not in state and not dfs(y):
                return False
        state[x] = 2
        return True

    return all(dfs(x) for x in list(adj) if x not in state)


def _check_graph(root, refs, label):
    try:
        g = plotting._structure(root.fis(), dict(refs))
    except Exception as e:
        LAST_DETAIL[0] = "%s: _structure raised %s: %s" % (label, type(e).__name__, str(e)[:80])
        return False
    want_nodes, solid, dashed, dotted_ok = _spec(root, refs)
    got_nodes = [n.path for n in g.fnodes]
    edges = [(e.from_path, e.to_path, e.edge_type) for e in g.deps]
    ok = True

    def bad(msg):
        LAST_DETAIL[0] = "%s: %s" % (label, msg)
        return False

    if sorted(set(got_nodes)) != sorted(want_nodes) or len(got_nodes) != len(set(got_nodes)):
        ok = bad("nodes %r, expected %r" % (sorted(got_nodes), sorted(want_nodes)))
    if ok:
        got_solid = set((x, y) for (x, y, t) in edges if t == plotting.DirectEdge)
        got_dashed = set((x, y) for (x, y, t) in edges if t == plotting.IndirectEdge)
        got_dotted = set((x, y) for (x, y, t) in edges if t == plotting.ImplicitEdge)
        if got_solid != solid:
            ok = bad("solid edges %r, expected %r" % (sorted(got_solid), sorted(solid)))
        elif got_dashed - solid != dashed - solid or not got_dashed <= dashed:
            ok = bad("dashed edges %r, expected %r" % (sorted(got_dashed), sorted(dashed)))
        elif not got_dotted <= dotted_ok:
            ok = bad("dotted edges %r not among the allowed sibling-order edges %r" % (sorted(got_dotted - dotted_ok), sorted(dotted_ok)))
        elif not _acyclic([(x, y) for (x, y, _t) in edges]):
            ok = bad("the graph has a cycle: %r" % (edges,))
    return ok


WIDE_KINDS = ["plain leaf (not kept, no arguments)", "kept with arguments", "kept without arguments", "not kept, with arguments, calls the shared node", "not kept, no arguments, calls the shared node", "kept with arguments, calls the shared node"]


def wide_impl(a):
    """root -> S, c2, c3, c4: S is a kept function without arguments called first; the later siblings are of the 6 WIDE_KINDS."""
    h.enter()
    if h.blocked(**a):
        return True
    sel = h.SEL
    ks = [sel["k2"], sel["k3"] if "k3" in sel else a["k3"], a["k4"]] + ([a["k5"]] if sel.get("five") else [])
    S = N("s", 1, a["sargs"])
    kids = [S]
    for i, k in enumerate(ks):
        name = "c%d" % (i + 2)
        kept = 1 if k in (1, 2, 5) else 0
        nargs = 1 if k in (1, 3, 5) else 0
        kids.append(N(name, kept, nargs, [S] if k >= 3 else []))
    root = N("root", a["rk"], 0, kids)
    return h.verdict(_check_graph(root, {}, "wide tree: root kept=%d, siblings S(args=%d) then %r" % (a["rk"], a["sargs"], [WIDE_KINDS[k] for k in ks])))


def tree_impl(a):
    h.enter()
    if h.blocked(**a):
        return True
    sel = h.SEL
    bit = lambda v, i: (v >> i) & 1
    kept = a["kept"] * sel.get("kscale", 1) + sel.get("kbase", 0)
    # named arguments only matter for calls that have an earlier sibling: c2 (bit 2), g2 (bit 4), g4 (bit 6)
    ab = a.get("args", 0)
    args = (bit(ab, 0) << 2) | (bit(ab, 1) << 4) | (bit(ab, 2) << 6)
    share, loads = a.get("share", 0), a.get("loads", 0)
    # shape: root(0) -> c1(1) [-> g1(3) [, g2(4)]], c2(2) [-> g3(5) [, g4(6)]]
    two = sel["two"]
    g1 = N("g1", bit(kept, 3), bit(args, 3))
    g3 = N("g3", bit(kept, 5), bit(args, 5))
    kids1, kids2 = [g1], [g3]
    if two:
        g2 = N("g2", bit(kept, 4), bit(args, 4))
        g4 = N("g4", bit(kept, 6), bit(args, 6))
        kids1.append(g2)
        kids2.append(g4)
    else:
        if bit(kept, 4) or bit(kept, 6) or bit(args, 4) or bit(args, 6):
            return True
    # sharing: g3 is the same function as g1 (same signature, same subtree); share==1: kept at the same path (a repeated call),
    # share==2: kept at ANOTHER path (two keeps of one function)
    if share:
        if not g1.kept or not g3.kept or g1.nargs != g3.nargs:
            return True
        g3.sig = g1.sig
        if share == 1:
            g3.path = g1.path
    c1 = N("c1", bit(kept, 1), bit(args, 1), kids1)
    c2 = N("c2", bit(kept, 2), bit(args, 2), kids2)
    root = N("root", bit(kept, 0), 0, [c1, c2])
    refs = {}
    # loads: bit0: c2 loads an external (already committed) path; bit1: c2 loads the path kept by g1 (earlier in traversal order);
    # bit2: g3 loads the path of c1 ... only if those nodes are kept (a load resolves to a kept or committed path)
    if bit(loads, 0):
        c2.loads.append("/ext/p")
        refs["/ext/p"] = "sig_ext"
    if bit(loads, 1):
        if not g1.kept:
            return True
        c2.loads.append(g1.path)
    if bit(loads, 2):
        if not c1.kept or share:
            return True
        g3.loads.append(c1.path)
    if bit(loads, 3):
        # the root itself loads a path kept two levels below it (already a transitive dependency)
        if not root.kept or not g1.kept:
            return True
        root.loads.append(g1.path)
    return h.verdict(_check_graph(root, refs, "tree kept=%s args=%s share=%d loads=%s two=%d" % (bin(kept), bin(args), share, bin(loads), two)))


# ---------------------------------------------------------------- export vs no export on the corpus


def export_impl(a):
    from vlib.templates import T
    from vlib.world import World
    import harness.C01 as base
    import pydotplus

    h.enter()
    if h.blocked(**a):
        return True
    sel = h.SEL
    t = T[sel["template"]]
    entry = tuple(sel["entry"]) if sel.get("entry") else None
    out = []
    for export in (False, True):
        hashmodel.MODEL.reset()
        w = World(t, "memory")
        for (mod, var, _typ, cone) in t.leaves:
            w.set_leaf(mod, var, a.get("v", 3) if cone else 0)
        kw = {}
        dot = os.path.join(os.environ.get("VERIF_SCRATCH", "/tmp"), "c18_%d.dot" % os.getpid())
        if export:
            kw["dds_export_graph"] = dot
        args = (1,) if sel.get("nargs") else ()
        r = w.run_real("eval", args, entry=entry, **kw)
        mem = w.store.inner
        out.append((r[:2], dict(w.last_sigs() or {}), dict(mem._cache), dict(mem._paths)))
        if export and r[0] == "ok":
            data = open(dot).read()
            os.remove(dot)
            g = pydotplus.graph_from_dot_data(data)
            names = set(n.get_name().strip('"') for n in g.get_nodes())
            missing = [p for p in (w.last_sigs() or {}) if p not in names]
            if missing:
                LAST_DETAIL[0] = "%s: kept paths %r are not nodes of the exported graph (nodes %r)" % (sel["template"], missing, sorted(names))
                return h.verdict(False)
            if not _acyclic([(e.get_source().strip('"'), e.get_destination().strip('"')) for e in g.get_edges()]):
                LAST_DETAIL[0] = "%s: exported graph has a cycle" % sel["template"]
                return h.verdict(False)
            if sel.get("solid") is not None:
                # the edges of the exported graph against the edges the program text dictates
                want = set((u, v) for (u, v) in sel["solid"])
                es = [(e.get_source().strip('"'), e.get_destination().strip('"'), (e.get("style") or "solid").strip('"')) for e in g.get_edges()]
                got = set((u, v) for (u, v, st) in es if st == "solid")
                other = sorted((u, v, st) for (u, v, st) in es if st != "solid")
                extra, lacking = got - want, want - got
                if sel.get("strict"):
                    bad_extra = extra
                else:
                    # tolerated here (and reported by the .strict twin of this query): a solid edge u -> v that only repeats a chain
                    # of expected solid edges from u to v
                    reach = set(want)
                    changed = True
                    while changed:
                        changed = False
                        for (x, y) in list(reach):
                            for (y2, z) in want:
                                if y2 == y and (x, z) not in reach:
                                    reach.add((x, z))
                                    changed = True
                    bad_extra = set(e for e in extra if e not in reach)
                if lacking or bad_extra or other:
                    LAST_DETAIL[0] = "%s %s: solid edges %r, the program dictates %r (unexpected %r, lacking %r, non-solid %r)" % (sel["template"], entry, sorted(got), sorted(want), sorted(bad_extra), sorted(lacking), other)
                    return h.verdict(False)
    ok = out[0] == out[1] and out[0][0][0] == "ok"
    if not ok:
        LAST_DETAIL[0] = "%s: with export %r / without %r" % (sel["template"], out[1][0], out[0][0])
    return h.verdict(ok)


def make_fn(fn, sel, tag):
    if fn == "tree":
        params, pres = [("kept", "int")], ["0 <= kept < %d" % sel["kmax"]]
        for (name, hi) in (("args", sel.get("amax", 0)), ("share", sel.get("smax", 0)), ("loads", sel.get("lmax", 0))):
            if hi:
                params.append((name, "int"))
                pres.append("0 <= %s <= %d" % (name, hi))
        return h.gen_fn(tag, "tree", params, pres, "harness.C18", "tree_impl")
    if fn == "wide":
        if sel.get("five"):
            return h.gen_fn(tag, "wide", [("k4", "int"), ("k5", "int"), ("rk", "int"), ("sargs", "int")], ["0 <= k4 <= 5 and 0 <= k5 <= 5", "0 <= rk <= 1 and 0 <= sargs <= 1"], "harness.C18", "wide_impl")
        return h.gen_fn(tag, "wide", [("k3", "int"), ("k4", "int"), ("rk", "int"), ("sargs", "int")], ["0 <= k3 <= 5 and 0 <= k4 <= 5", "0 <= rk <= 1 and 0 <= sargs <= 1"], "harness.C18", "wide_impl")
    return h.gen_fn(tag, "export", [("v", "int")], ["0 <= v <= 1"], "harness.C18", "export_impl")


def queries(tier):
    qs = []
    # one call below each child: kept flags of the 5 nodes (bits 0,1,2,3,5 -> enumerated as 64 values, unused bit pinned by the harness)
    qs.append({"id": "tree.one.args-share", "fn": "tree", "sel": {"two": 0, "kmax": 64, "amax": 1, "smax": 2}, "timeout": 900})
    qs.append({"id": "tree.one.loads", "fn": "tree", "sel": {"two": 0, "kmax": 64, "lmax": 15}, "timeout": 900})
    # two calls below each child: 7 kept flags, partitioned by the flags of root and c1
    for kb in range(4):
        qs.append({"id": "tree.two.args.k%d" % kb, "fn": "tree", "sel": {"two": 1, "kmax": 32, "kscale": 4, "kbase": kb, "amax": 7}, "timeout": 1200})
    qs.append({"id": "tree.two.share", "fn": "tree", "sel": {"two": 1, "kmax": 128, "amax": 1, "smax": 2}, "timeout": 1200})
    # four siblings, the first one a kept node that later siblings reach again (chains of call-order edges)
    for k2 in range(6):
        qs.append({"id": "tree.wide.k%d" % k2, "fn": "wide", "sel": {"k2": k2}, "timeout": 900})
    if tier == "thorough":
        # five siblings
        for k2 in range(6):
            for k3 in range(6):
                qs.append({"id": "tree.wide5.k%d%d" % (k2, k3), "fn": "wide", "sel": {"k2": k2, "k3": k3, "five": 1}, "timeout": 1200})
    # exported edges against the program text: a default-parameter function kept before a sibling and again by a later function;
    # a chain of three keeps (its .strict twin reports the recorded finding: transitive solid edge)
    P = "/t18/"
    qs.append({"id": "export.T18.top", "fn": "export", "sel": {"template": "T18", "entry": ["tq.m1", "top"], "nargs": False, "solid": [[P + "a", P + "p"], [P + "b", P + "p"], [P + "a", P + "q"]], "strict": True}, "timeout": 400})
    qs.append({"id": "export.T18.chain", "fn": "export", "sel": {"template": "T18", "entry": ["tq.m1", "chain"], "nargs": False, "solid": [[P + "x", P + "m"], [P + "m", P + "c"]]}, "timeout": 400})
    qs.append({"id": "export.T18.chain.strict", "fn": "export", "sel": {"template": "T18", "entry": ["tq.m1", "chain"], "nargs": False, "solid": [[P + "x", P + "m"], [P + "m", P + "c"]], "strict": True}, "timeout": 400})
    for tn, entry, nargs in (("T1", None, False), ("T3", ["tq.m1", "root"], True), ("T4", ["tq.m1", "root"], True), ("T5", None, False), ("T6", None, False), ("T7", None, False), ("T8", None, False), ("T9", ["tq.m1", "root_a"], False), ("T9", ["tq.m1", "root_d"], False)):
        qs.append({"id": "export.%s%s" % (tn, ("." + entry[1]) if entry else ""), "fn": "export", "sel": {"template": tn, "entry": entry, "nargs": nargs}, "timeout": 400})
    return qs


def functions_encoded():
    return FUNCTIONS_ENCODED
