"""Real-OS replay of an interleaving found by harness.C07: two children run the real dds code against a real
temporary directory through the same facades as the model (so the operation granularity is identical) and block
before every file-system step until this controller releases them in the order the solver chose."""
import json
import os
import shutil
import subprocess
import sys
import tempfile

ROOT = os.path.dirname(os.path.dirname(os.path.abspath(__file__)))

_CHILD = r'''
import os, sys, json
sys.path.insert(0, %(root)r)
from vlib import h, tick
from vlib.models import fsmodel
import dds, dds._api as api, dds.store as store
from dds.structures import DDSException
import vpipes.p1 as p1
h.quiet_logs(); h.install_clock()
cfg = json.loads(%(cfg)r)
ctl_in = os.fdopen(os.dup(0), "r"); ctl_out = os.fdopen(os.dup(1), "w")
def gate(op, args=None):
    if not cfg["gated"]:
        return
    ctl_out.write("OP %%s\n" %% op); ctl_out.flush()
    ctl_in.readline()
fs = fsmodel.RealFS(gate)
fsmodel.install(fs)
store.os.getpid = os.getpid
tick.PAYLOAD.update(cfg["payload"])
p1.VERSION = cfg["version"]
dds.accept_module("vpipes")
out = {}
try:
    api.set_store("local", cfg["int"], cfg["data"], None, None, None)
    if cfg["action"] == "eval":
        out["value"] = dds.eval(p1.root)
    elif cfg["action"] == "evalload":
        out["value"] = dds.eval(p1.root)
        lo = [dds.load(q) for q in ("/out", "/d/in")]
        want = p1.plain()
        if lo != [want["/out"], want["/d/in"]]:
            out["exc"] = "loads after own evaluation returned %%r, expected %%r" %% (lo, [want["/out"], want["/d/in"]])
    else:
        out["value"] = [dds.load(q) for q in ("/out", "/d/in")]
    out["log"] = list(tick.LOG)
except DDSException as e:
    out["exc"] = "DDSException: " + str(e)[:300]
except Exception as e:
    out["exc"] = type(e).__name__ + ": " + str(e)[:300]
ctl_out.write("DONE " + json.dumps(out) + "\n"); ctl_out.flush()
'''


class Child:
    def __init__(self, cfg):
        code = _CHILD % {"root": ROOT, "cfg": json.dumps(cfg)}
        self.p = subprocess.Popen([sys.executable, "-c", code], stdin=subprocess.PIPE, stdout=subprocess.PIPE, stderr=subprocess.PIPE, text=True)
        self.done = False
        self.result = None
        self._read()

    def _read(self):
        line = self.p.stdout.readline()
        if line.startswith("DONE "):
            self.done = True
            self.result = json.loads(line[5:])
        elif not line:
            self.done = True
            self.result = {"exc": "child died: " + self.p.stderr.read()[-400:]}

    def step(self):
        if self.done:
            return
        self.p.stdin.write("go\n")
        self.p.stdin.flush()
        self._read()

    def close(self):
        try:
            self.p.kill()
        except Exception:
            pass


def _run_seq(cfg):
    c = Child(dict(cfg, gated=False))
    try:
        return c.result
    finally:
        c.close()


def replay(sel, args):
    from harness import C07
    import vpipes.p1 as p1
    from vlib import tick

    d = os.path.realpath(tempfile.mkdtemp(prefix="verif-c07-"))
    children = []
    try:
        name = sel["scenario"]
        payload = {"inner": args["pay"], "outer": "o"}
        tick.PAYLOAD.clear()
        tick.PAYLOAD.update(payload)
        p1.VERSION = 1
        v1 = p1.plain()
        p1.VERSION = 2
        v2 = p1.plain()
        base = {"payload": payload, "int": os.path.join(d, "x", "int"), "gated": True}
        data = os.path.join(d, "y", "data")
        if name == "WW":
            cfgs = [dict(base, action="evalload", version=1, data=data), dict(base, action="evalload", version=1, data=data)]
        elif name == "WR":
            r0 = _run_seq(dict(base, action="eval", version=1, data=data))
            if "exc" in r0:
                return {"reproduced": False, "detail": "setup failed: %r" % (r0,)}
            cfgs = [dict(base, action="evalload", version=2, data=data), dict(base, action="load", version=1, data=data)]
        else:
            cfgs = [dict(base, action="evalload", version=1, data=data + "A"), dict(base, action="evalload", version=1, data=data + "B")]
        children = [Child(c) for c in cfgs]
        switches = [args["s1"]] + ([args["s2"]] if sel["k"] == 2 else [])
        cur, k, steps = sel["first"], 0, 0
        guard = 0
        while not all(c.done for c in children):
            guard += 1
            if guard > 5000:
                return {"reproduced": False, "detail": "controller did not terminate"}
            if k < len(switches) and steps >= switches[k]:
                k += 1
                cur = (cur + 1) % 2
                continue
            c = children[cur]
            if c.done:
                cur = (cur + 1) % 2
                continue
            c.step()
            steps += 1
        res = [c.result for c in children]
        where = "real OS, two real processes, schedule first=%d switches=%r (%s): " % (sel["first"], switches, name)
        if name in ("WW", "WW2"):
            for i, r in enumerate(res):
                if "exc" in r or r["value"] != v1["/out"]:
                    return {"reproduced": True, "detail": where + "process %d: %r (expected %r)" % (i, r, v1["/out"])}
            final, want = 1, v1
        else:
            w, rd = res
            if "exc" in w or w["value"] != v2["/out"]:
                return {"reproduced": True, "detail": where + "writer: %r" % (w,)}
            if "exc" in rd:
                return {"reproduced": True, "detail": where + "reader fails: %s" % rd["exc"]}
            for (q, v) in zip(("/out", "/d/in"), rd["value"]):
                if not (v == v1[q] or v == v2[q]):
                    return {"reproduced": True, "detail": where + "reader: dds.load(%s) = %r (old %r / new %r)" % (q, v, v1[q], v2[q])}
            final, want = 2, v2
        for dd in ([data + "A", data + "B"] if name == "WW2" else [data]):
            r = _run_seq(dict(base, action="eval", version=final, data=dd))
            if "exc" in r or r["value"] != want["/out"] or r["log"]:
                return {"reproduced": True, "detail": where + "fresh process afterwards: %r" % (r,)}
            r = _run_seq(dict(base, action="load", version=final, data=dd))
            if "exc" in r or r["value"] != [want["/out"], want["/d/in"]]:
                return {"reproduced": True, "detail": where + "loads afterwards: %r" % (r,)}
        return {"reproduced": False, "detail": "real OS: all processes returned complete correct values"}
    finally:
        for c in children:
            c.close()
        shutil.rmtree(d, ignore_errors=True)
