"""
C11 - ill-formed evaluations are rejected before anything runs, whatever the order.

Real code executed symbolically: dds.structures_utils.FunctionInteractionsUtils.non_terminal_leaves, DDSPathUtils.split / create, dds._api
(rejection path of _eval_new_ctx), dds.introspect / dds._introspect_indirect (cycle and nested-eval detection) .

Queries
  kern.*     non_terminal_leaves on 3-4 paths whose lengths, segments and order are solver variables: the result is non-empty exactly
             when some path is a strict segment-prefix of another one.
  api.*      pipeline P4 (three kept paths at different nesting positions, paths chosen by the solver): overlapping paths => DDSException
             coded OVERLAPPING_PATH, no user function runs, blobs and paths of the (cold or populated) store untouched; otherwise the plain value.
  cycle.*    generated programs with a call cycle of length 1..3 through plain calls / dds.keep / higher-order references, entered at
             the first node: CIRCULAR_CALL, nothing executed, store untouched.   eval.* : dds.eval nested at depth 1..3: EVAL_IN_EVAL.
             (cycle.* and eval.* are finite families of concrete programs: enumeration, labelled so.)
"""
from collections import OrderedDict

from vlib import h, tick
from vlib.models import fastenv, hashmodel
from vlib.world import World, RecordingStore
from vlib.tpl import Template
from vlib.templates import HEAD, PKG

h.quiet_logs()

import dds
import dds._api as api
import dds.store as dstore
from dds.structures import DDSException, DDSErrorCode
from dds.structures_utils import FunctionInteractionsUtils as FIU, DDSPathUtils

import vpipes.p4 as p4

PROPERTY = "C11"
EXPLANATION = "C11: overlap kernel on symbolic path lists, rejection path of the evaluation for solver-chosen kept paths, and generated cyclic / nested-eval programs."
STUBBED_NAMES = None
ASSUMPTIONS = [fastenv.ASSUMPTION + " (api.* queries)", "clock stub"]
OUTSIDE = ["more than 4 kept paths / 3 segments in the kernel queries", "cycles longer than 3, cycles through class methods", "dds.eval nested dynamically through non-accepted code (only detectable after user code started)"]
FUNCTIONS_ENCODED = ["dds.structures_utils.FunctionInteractionsUtils.non_terminal_leaves", "dds.structures_utils.DDSPathUtils.split", "dds.structures_utils.DDSPathUtils.create", "dds._api._eval_new_ctx", "dds.introspect.InspectFunction.inspect_call", "dds._introspect_indirect.InspectFunctionIndirect.inspect_call"]
BOUNDS = {"quick": {"kern": "3 paths of 1..3 segments over {f, g}; 4 paths of 1..2 segments over {f, g} (thorough: {f, g, x})", "api": "3 kept paths of 1..3 segments over {f, g} (quick: at most 6 segments in total), cold and populated memory store", "cycles": "length 1..3 x {call, keep, higher-order}", "nested eval": "depth 1..3"}}
BOUNDS["thorough"] = BOUNDS["quick"]
LAST_DETAIL = [""]


def setup_query(sel):
    h.install_clock()
    if sel.get("native"):
        fastenv.install()


def _mkpath(alpha, l, segs):
    return "/" + "/".join(alpha[s] for s in segs[:l])


def _strict_prefix(p, q):
    a, b = p.split("/")[1:], q.split("/")[1:]
    return len(a) < len(b) and b[: len(a)] == a


def _overlap(paths):
    return any(_strict_prefix(p, q) for p in paths for q in paths)


def kern_impl(a):
    h.enter()
    if h.blocked(**a):
        return True
    sel = h.SEL
    alpha, maxl, n = sel["alpha"], sel["maxl"], sel["n"]
    paths = []
    for i in range(n):
        l = sel["l0"] if (i == 0 and "l0" in sel) else a["l%d" % i]
        segs = [a.get("s%d_%d" % (i, j), 0) for j in range(maxl)]
        for j in range(l, maxl):
            if segs[j] != 0:
                return True  # unused segments are pinned
        paths.append(_mkpath(alpha, l, segs))
    if len(set(paths)) != len(paths):
        return True  # the same path kept twice is not an overlap
    got = FIU.non_terminal_leaves(list(paths), None)
    ok = bool(got) == _overlap(paths)
    if ok and got:
        # every reported path is a strict prefix of another one
        ok = all(any(_strict_prefix(g, q) for q in paths) for g in got)
    if not ok:
        LAST_DETAIL[0] = "non_terminal_leaves(%r) = %r" % (paths, got)
    return h.verdict(ok)


class _Rec(RecordingStore):
    def __init__(self, inner):
        RecordingStore.__init__(self, inner)
        self.stored = []

    def store_blob(self, key, blob, codec=None):
        self.stored.append(key)
        return self.inner.store_blob(key, blob, codec)


def api_impl(a):
    h.enter()
    if h.blocked(**a):
        return True
    sel = h.SEL
    alpha = sel["alpha"]
    paths = []
    for i in range(3):
        l = sel["l%d" % i] if ("l%d" % i) in sel else a["l%d" % i]
        segs = [a["s%d_%d" % (i, j)] for j in range(3)]
        for j in range(l, 3):
            if segs[j] != 0:
                return True
        paths.append(_mkpath(alpha, l, segs))
    if len(set(paths)) != 3:
        return True
    if sel.get("maxtotal") and sum(len(p.split("/")) - 1 for p in paths) > sel["maxtotal"]:
        return True  # quick tier: total number of segments bounded
    tick.PAYLOAD.clear()
    tick.PAYLOAD.update({"p": "x"})
    h.fresh_process()
    dds.accept_module("vpipes")
    mem = dstore.MemoryStore()
    rec = _Rec(mem)
    api._store_var = rec
    if sel.get("pre", a.get("pre")):
        # populated store: an earlier, well-formed evaluation
        p4.P0, p4.P1, p4.P2 = "/q0", "/q1", "/q2"
        dds.eval(p4.top)
        rec.stored, rec.synced = [], []
    before = (dict(mem._cache), dict(mem._paths))
    p4.P0, p4.P1, p4.P2 = paths
    rootpath = None
    if sel.get("rootkept"):
        # the evaluation is a top-level dds.keep(rootpath, top): the root's own path takes part in the overlap test
        rl = sel["lr"] if "lr" in sel else a["lr"]
        rsegs = [a["r_%d" % j] for j in range(3)]
        for j in range(rl, 3):
            if rsegs[j] != 0:
                return True
        rootpath = _mkpath(alpha, rl, rsegs)
        if rootpath in paths:
            return True
        paths = paths + [rootpath]
    tick.reset()
    try:
        r = ("ok", dds.keep(rootpath, p4.top) if rootpath else dds.eval(p4.top))
    except DDSException as e:
        r = ("dds", e.error_code)
    except Exception as e:
        r = ("exc", type(e).__name__)
    finally:
        api._eval_ctx = None
    if _overlap(paths):
        ok = r == ("dds", DDSErrorCode.OVERLAPPING_PATH) and not tick.LOG and (dict(mem._cache), dict(mem._paths)) == before
        if not ok:
            LAST_DETAIL[0] = "kept paths %r overlap: result %r, executed %r, blobs stored %d, paths committed %r" % (paths, r, list(tick.LOG), len(rec.stored), rec.synced)
    else:
        ok = r == ("ok", p4.plain())
        if not ok:
            LAST_DETAIL[0] = "kept paths %r do not overlap: result %r" % (paths, r)
    return h.verdict(ok)


# ---------------------------------------------------------------- generated cyclic programs


def cycle_template(L, kind):
    src = HEAD + "\n"
    for i in range(L):
        nxt = "c%d" % ((i + 1) % L)
        if kind == "call":
            body = "    return (%d, %s())" % (i, nxt)
        elif kind == "keep":
            body = "    return (%d, dds.keep(\"/cyc/p%d\", %s))" % (i, i, nxt)
        else:
            body = "    return (%d, apply(%s))" % (i, nxt)
        src += "\n\ndef c%d():\n    tick.hit(\"c%d\")\n%s\n" % (i, i, body)
    src += "\n\ndef apply(fn):\n    return fn()\n"
    return Template("cyc", OrderedDict([PKG, ("tq.m1", {"a": src})]), [], ("tq.m1", "c0"), ["tq"], [])


def cross_module_template(kind):
    """A cycle of length 2 across two accepted modules whose functions import each other inside their bodies (the usual way to break an
    import cycle). kind: 'call' plain calls, 'eval' the second module (which imports dds only inside the function) nests dds.eval instead."""
    m1 = HEAD + "\n\ndef c0():\n    import tq.m2\n    tick.hit(\"c0\")\n    return (0, tq.m2.c1())\n"
    if kind == "eval":
        m2 = "from vlib import tick\n\n\ndef inner():\n    tick.hit(\"inner\")\n    return 1\n\n\ndef c1():\n    import dds\n    tick.hit(\"c1\")\n    return (1, dds.eval(inner))\n"
    else:
        m2 = HEAD + "\n\ndef c1():\n    import tq.m1\n    tick.hit(\"c1\")\n    return (1, tq.m1.c0())\n"
    return Template("xmod", OrderedDict([PKG, ("tq.m2", {"a": m2}), ("tq.m1", {"a": m1})]), [], ("tq.m1", "c0"), ["tq"], [])


def nested_eval_template(depth):
    src = HEAD + "\n\ndef inner():\n    tick.hit(\"inner\")\n    return 1\n"
    prev = "dds.eval(inner)"
    for d in range(depth):
        src += "\n\ndef lvl%d():\n    tick.hit(\"lvl%d\")\n    return %s\n" % (d, d, prev)
        prev = "lvl%d()" % d
    return Template("nev", OrderedDict([PKG, ("tq.m1", {"a": src})]), [], ("tq.m1", "lvl%d" % (depth - 1)), ["tq"], [])


def prog_impl(a):
    h.enter()
    if h.blocked(**a):
        return True
    sel = h.SEL
    hashmodel.install()
    if sel["family"] == "xmod":
        t = cross_module_template(sel["kind"])
    else:
        t = cycle_template(sel["L"], sel["kind"]) if sel["family"] == "cycle" else nested_eval_template(sel["depth"])
    w = World(t, "memory")
    mem = w.store.inner
    before = (dict(mem._cache), dict(mem._paths))
    style = "eval" if a["style"] == 0 else "keep"
    r = w.run_real(style, (), path="/cyc/root")
    want = DDSErrorCode.CIRCULAR_CALL if (sel["family"] == "cycle" or (sel["family"] == "xmod" and sel["kind"] != "eval")) else DDSErrorCode.EVAL_IN_EVAL
    ok = r[0] == "dds" and r[1] == want and not tick.LOG and (dict(mem._cache), dict(mem._paths)) == before
    if not ok:
        LAST_DETAIL[0] = "%r: result %r, executed %r" % (sel, r[:2], list(tick.LOG))
    return h.verdict(ok)


def make_fn(fn, sel, tag):
    if fn in ("kern", "api"):
        n = sel.get("n", 3)
        maxl = sel.get("maxl", 3)
        na = len(sel["alpha"])
        params, pres = [], []
        for i in range(n):
            if ("l%d" % i) not in sel:
                params.append(("l%d" % i, "int"))
                pres.append("1 <= l%d <= %d" % (i, maxl))
            for j in range(maxl):
                params.append(("s%d_%d" % (i, j), "int"))
                pres.append("0 <= s%d_%d < %d" % (i, j, na))
        if fn == "api":
            if "pre" not in sel:
                params.append(("pre", "int"))
                pres.append("0 <= pre <= 1")
            if sel.get("rootkept"):
                if "lr" not in sel:
                    params.append(("lr", "int"))
                    pres.append("1 <= lr <= %d" % sel.get("maxlr", 3))
                for j in range(3):
                    params.append(("r_%d" % j, "int"))
                    pres.append("0 <= r_%d < %d" % (j, na))
        return h.gen_fn(tag, fn, params, pres, "harness.C11", fn + "_impl")
    return h.gen_fn(tag, "prog", [("style", "int")], ["0 <= style <= 1"], "harness.C11", "prog_impl")


def queries(tier):
    qs = []
    for l0 in (1, 2, 3):
        qs.append({"id": "kern.3x3.fg.l%d" % l0, "fn": "kern", "sel": {"alpha": ["f", "g"], "maxl": 3, "n": 3, "l0": l0}, "timeout": 400})
    for l0 in (1, 2):
        qs.append({"id": "kern.4x2.fg.l%d" % l0, "fn": "kern", "sel": {"alpha": ["f", "g"], "maxl": 2, "n": 4, "l0": l0}, "timeout": 600})
    if tier == "thorough":
        for l0 in (1, 2):
            qs.append({"id": "kern.4x2.fgx.l%d" % l0, "fn": "kern", "sel": {"alpha": ["f", "g", "x"], "maxl": 2, "n": 4, "l0": l0}, "timeout": 3000})
    for l0 in (1, 2, 3):
        for l1 in (1, 2, 3):
            if tier == "quick" and l0 + l1 > 5:
                continue
            sel = {"alpha": ["f", "g"], "native": True, "l0": l0, "l1": l1}
            if tier == "quick":
                sel["maxtotal"] = 6
            qs.append({"id": "api.fg.l%d%d" % (l0, l1), "fn": "api", "sel": sel, "timeout": 600 if tier == "quick" else 3000})
    # the same with the root function itself kept at a solver-chosen path (inner paths of 1..2 segments)
    for l0 in (1, 2):
        for pre in (0, 1):
            for lr in (1, 2):
                if l0 == 1 and lr == 1:
                    continue  # three distinct one-segment inner paths use up the 3-letter alphabet: no one-segment root path is left (vacuous)
                qs.append({"id": "api.rootkept.l%d.pre%d.r%d" % (l0, pre, lr), "fn": "api", "sel": {"alpha": ["f", "g", "x"], "native": True, "l0": l0, "l1": 1, "l2": 1, "rootkept": True, "pre": pre, "lr": lr}, "timeout": 900})
    for L in (1, 2, 3):
        for kind in ("call", "keep", "href"):
            qs.append({"id": "cycle.%d.%s" % (L, kind), "fn": "prog", "sel": {"family": "cycle", "L": L, "kind": kind}, "timeout": 200})
    # the offending call sits in another accepted module and is reached through a function-local import
    for kind in ("call", "eval"):
        qs.append({"id": "xmod.%s" % kind, "fn": "prog", "sel": {"family": "xmod", "kind": kind}, "timeout": 200})
    for d in (1, 2, 3):
        qs.append({"id": "eval.depth%d" % d, "fn": "prog", "sel": {"family": "eval", "depth": d}, "timeout": 200})
    return qs


def functions_encoded():
    return FUNCTIONS_ENCODED
