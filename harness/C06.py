"""
C06 - a process killed at any instant never leaves a store that serves wrong data.

Real code executed symbolically: dds._api.set_store / _eval / _eval_new_ctx / load, dds.store.LocalFileStore (all
methods), dds.codecs.builtins, dds.codec.CodecRegistry - over the file-system model with crash injection: the index
of the file-system operation that is not completed (crash_at) and the torn-write length are solver variables.

Scenarios
  S1  first-time evaluation of a nested pipeline on non-existing store directories (store creation, two blob
      stores, two path commits), killed at crash_at; a recovery process evaluates the same pipeline.
  S2  a committed evaluation of version 1, then an evaluation of changed code (version 2: re-keep, link
      replacement) killed at crash_at; the recovery process first loads every previously committed path (old or new
      complete value, no exception), then evaluates version 2.
  S3  as S2, but the code is edited again before the recovery (version 3) and the recovering process has the SAME pid as
      the killed one (pid reuse: a restarted container's main process): leftovers of the killed commit must not be
      taken for the recovery's own.
In all: the recovery evaluation returns the plain values, a second one executes nothing, loads return the values.
"""
from vlib import h, tick
from vlib.models import fsmodel, fastenv

h.quiet_logs()

import dds
import dds._api as api
from dds.structures import DDSException

import vpipes.p1 as p1

PROPERTY = "C06"
EXPLANATION = "C06: kill -9 at every mutating file-system operation (and inside every write) of a local-store evaluation, as solver variables; recovery by a fresh process on the resulting file-system state."
STUBBED_NAMES = fsmodel.STUBBED_NAMES
FUNCTIONS_ENCODED = [
    "dds._api.set_store", "dds._api._eval", "dds._api._eval_new_ctx", "dds._api.load", "dds._api.keep", "dds._api.eval", "dds.store.LocalFileStore.__init__", "dds.store.LocalFileStore.has_blob",
    "dds.store.LocalFileStore.fetch_blob", "dds.store.LocalFileStore.store_blob", "dds.store.LocalFileStore.sync_paths", "dds.store.LocalFileStore.fetch_paths",
    "dds.codecs.builtins.StringLocalFileCodec.serialize_into", "dds.codecs.builtins.StringLocalFileCodec.deserialize_from", "dds.codec.CodecRegistry.get_codec", "dds.structures_utils.FunctionInteractionsUtils.all_store_paths",
]
ASSUMPTIONS = [
    "kill -9 semantics: completed operations are durable, the interrupted write leaves a prefix, process state is lost (no fsync / power-loss reordering)",
    "file-system model = POSIX as validated by the differential self-test of this run",
    fastenv.ASSUMPTION,
    "clock stub: the meta timestamp is a constant",
    "os.getpid stub: every simulated process has the same pid in the model (worst case for pid-derived temporary names); the real-OS replay of S3 emulates the pid reuse, S1 / S2 replays use the real pids",
]
OUTSIDE = ["non-local stores", "power loss / fsync reordering", "crashes inside user code (C10)", "torn writes other than a prefix of 0..3 bytes or all-but-one byte (stated bound on the torn length)"]
BOUNDS = {
    "quick": {"crash_at": "every mutating FS operation (mkdir / create-truncate / write / unlink / symlink / rename) of the scenario, as one symbolic int", "torn": "prefix of 0,1,2,3 or len-1 bytes", "payload": "symbolic ASCII str <= 2 chars per kept function", "scenarios": ["S1", "S2", "S3 (crash points of the path-commit phase)"]},
    "thorough": {"crash_at": "as quick, one crash point per query; S3 over the whole run (quick: over its path-commit phase)", "torn": "as quick", "payload": "symbolic str <= 1 char of any code point (multi-byte encodings: a torn write can end inside a character)", "scenarios": ["S1", "S2", "S3"]},
}
BUDGET_S = {"thorough": 1500}  # wall budget of the thorough tier: queries not started by then are reported as not run
LAST_DETAIL = [""]
INT_DIR, DATA_DIR = "/s/x/int", "/s/y/data"


def selftest():
    return fsmodel.selftest()


def setup_query(sel):
    h.install_clock()
    fastenv.install()


class _TornFS(fsmodel.FS):
    """torn = 4 stands for 'all but the last byte'. The root /s exists, like the temporary root of the real-OS replay,
    so that operation indices are the same in the model and in the replay."""

    def __init__(self):
        fsmodel.FS.__init__(self)
        self.nodes["/s"] = ("dir",)

    def do(self, op, *args):
        if op == "write" and self.crash_at is not None and self.count == self.crash_at and self.torn == 4:
            self.torn = max(len(args[1]) - 1, 0)
        return fsmodel.FS.do(self, op, *args)


def _process(fs, version, crash_at=None, torn=0, action="eval"):
    """One OS process: returns ('ok', value) | ('crash', None) | ('exc', description)."""
    h.fresh_process()
    dds.accept_module("vpipes")
    p1.VERSION = version
    fsmodel.install(fs)
    fs.count = 0
    fs.dead = False
    fs.crash_at = crash_at
    fs.torn = torn
    tick.reset()
    try:
        api.set_store("local", INT_DIR, DATA_DIR, None, None, None)
        if action == "eval":
            return ("ok", dds.eval(p1.root))
        return ("ok", [dds.load(p) for p in ("/out", "/d/in")])
    except fsmodel.Crash:
        return ("crash", None)
    except DDSException as e:
        return ("exc", "DDSException: " + str(e)[:200])
    except Exception as e:
        return ("exc", type(e).__name__ + ": " + str(e)[:200])
    finally:
        fs.crash_at = None
        api._eval_ctx = None


def count_ops(scenario):
    """Number of mutating FS operations of the process that will be killed (dry run, no crash)."""
    tick.PAYLOAD.clear()
    tick.PAYLOAD.update({"inner": "a", "outer": "b"})
    fs = _TornFS()
    if scenario in ("S2", "S3"):
        _process(fs, 1)
    r = _process(fs, 2 if scenario in ("S2", "S3") else 1)
    assert r[0] == "ok", r
    LAST_TRACE[:] = list(fs.trace)[-fs.count:]
    return fs.count


LAST_TRACE = []


def first_commit_op(scenario):
    """Index of the first mutating operation of the path-commit phase (the first symlink) of the process that will be killed."""
    count_ops(scenario)
    for i, t in enumerate(LAST_TRACE):
        if t[0] == "symlink":
            return i
    return 0


def crash_impl(a):
    h.enter()
    sel = h.SEL
    crash_at, torn = a["crash_at"], a["torn"]
    if not (sel["lo"] <= crash_at < sel["hi"]):
        return True
    if h.blocked(**a):
        return True
    tick.PAYLOAD.clear()
    tick.PAYLOAD.update({"inner": a["pi"], "outer": a["po"]})
    fs = _TornFS()
    scenario = sel["scenario"]
    old = None
    if scenario in ("S2", "S3"):
        r0 = _process(fs, 1)
        if r0[0] != "ok":
            return h.verdict(False)
        p1.VERSION = 1
        old = p1.plain()
    ver = 2 if scenario in ("S2", "S3") else 1
    r1 = _process(fs, ver, crash_at, torn)
    if r1[0] != "crash":
        # crash_at beyond the end of the run: the process completed
        return True
    trace = list(fs.trace)
    p1.VERSION = ver
    new = p1.plain()
    ok = True
    if scenario in ("S2", "S3"):
        rl = _process(fs, ver, action="load")
        if rl[0] != "ok":
            LAST_DETAIL[0] = "load of previously committed paths after the crash: %r" % (rl,)
            ok = False
        else:
            for (p, v) in zip(("/out", "/d/in"), rl[1]):
                if not (v == old[p] or v == new[p]):
                    LAST_DETAIL[0] = "dds.load(%s) after the crash returned %r (old %r, new %r)" % (p, v, old[p], new[p])
                    ok = False
    if scenario == "S3":
        # the code is edited once more before the recovery
        ver = 3
        p1.VERSION = ver
        new = p1.plain()
    if ok:
        r2 = _process(fs, ver)
        if r2[0] != "ok" or r2[1] != new["/out"]:
            LAST_DETAIL[0] = "recovery evaluation: %r, expected %r" % (r2, new["/out"])
            ok = False
    if ok:
        rl = _process(fs, ver, action="load")
        if rl[0] != "ok" or rl[1] != [new["/out"], new["/d/in"]]:
            LAST_DETAIL[0] = "loads after the recovery evaluation: %r, expected %r" % (rl, [new["/out"], new["/d/in"]])
            ok = False
    if ok:
        r3 = _process(fs, ver)
        if r3[0] != "ok" or r3[1] != new["/out"] or tick.count() != 0:
            LAST_DETAIL[0] = "second recovery evaluation: %r, executed %r" % (r3, list(tick.LOG))
            ok = False
    if ok:
        rl = _process(fs, ver, action="load")
        if rl[0] != "ok" or rl[1] != [new["/out"], new["/d/in"]]:
            LAST_DETAIL[0] = "loads after recovery: %r" % (rl,)
            ok = False
    if not ok and not h.TWIN:
        LAST_DETAIL[0] += " | ops of the killed process: %r" % (trace[-6:],)
        import os as _os
        if _os.environ.get("VERIF_DEBUG"):
            print("DEBUG", LAST_DETAIL[0], flush=True)
    return h.verdict(ok)


def make_fn(fn, sel, tag):
    anystr = sel.get("anystr")
    pres = ["%d <= crash_at < %d" % (sel["lo"], sel["hi"]), "0 <= torn <= 4", ("len(pi) <= 1 and len(po) <= 1" if anystr else "len(pi) <= 2 and len(po) <= 2 and pi.isascii() and po.isascii()")]
    return h.gen_fn(tag, "crash", [("crash_at", "int"), ("torn", "int"), ("pi", "str"), ("po", "str")], pres, "harness.C06", "crash_impl")


def queries(tier):
    qs = []
    # quick: 2 crash points per query; S3 only over the path-commit phase (its subject: leftovers of a killed commit met by a
    # recovery with the same pid), thorough: one crash point per query, S3 over the whole run
    chunk = 2 if tier == "quick" else 1
    for sc in ("S1", "S2", "S3"):
        n = count_ops(sc)
        lo = 0
        if sc == "S3" and tier == "quick":
            lo = first_commit_op(sc)
        while lo < n:
            hi = min(lo + chunk, n)
            qs.append({"id": "%s.crash%02d-%02d" % (sc, lo, hi - 1), "fn": "crash", "sel": {"scenario": sc, "lo": lo, "hi": hi, "nops": n, "anystr": tier == "thorough"}, "timeout": 500 if tier == "quick" else 1500})
            lo = hi
    return qs


def functions_encoded():
    return FUNCTIONS_ENCODED


# ---------------------------------------------------------------------------
# replay on the real OS: the process to be killed runs in a child whose os / open names inside dds.store and
# dds.codecs.builtins are wrapped by a counting shim delegating to the real OS and calling os._exit(137) at the
# chosen operation (after writing the torn prefix); recovery runs in further children on the directory left behind.

_CHILD = r'''
import os, sys, json
sys.path.insert(0, %(root)r)
import dds, dds._api as api, dds.store as store
from vlib import tick, h
from vlib.models import fsmodel
import vpipes.p1 as p1
h.quiet_logs(); h.install_clock()
cfg = json.loads(%(cfg)r)
tick.PAYLOAD.update(cfg["payload"])
p1.VERSION = cfg["version"]
dds.accept_module("vpipes")
state = {"n": 0}
crash_at, torn = cfg["crash_at"], cfg["torn"]
def gate(op, args):
    # same operation granularity as the model: the facades are shared, only the backend is the real OS
    if op not in fsmodel.MUTATING:
        return
    k = state["n"]; state["n"] = k + 1
    if crash_at is not None and k == crash_at:
        if op == "write":
            handle, data = args
            t = max(len(data) - 1, 0) if torn == 4 else torn
            handle.f.write(data[:t]); handle.f.flush()
        os._exit(137)
fs = fsmodel.RealFS(gate)
fs.split_writes = False
fsmodel.install(fs)
store.os.getpid = (lambda: cfg["pid"]) if cfg.get("pid") else os.getpid  # S3: pid reuse, the killed and the recovering process report the same pid
out = {}
try:
    api.set_store("local", cfg["int"], cfg["data"], None, None, None)
    if cfg["action"] == "eval":
        out["value"] = dds.eval(p1.root)
    else:
        out["value"] = [dds.load(p) for p in ("/out", "/d/in")]
    out["log"] = list(tick.LOG)
except BaseException as e:
    out["exc"] = type(e).__name__ + ": " + str(e)[:300]
print("CHILD " + json.dumps(out))
'''


def _child(root, cfg):
    import json
    import subprocess
    import sys

    code = _CHILD % {"root": root, "cfg": json.dumps(cfg)}
    r = subprocess.run([sys.executable, "-c", code], capture_output=True, text=True, timeout=120)
    if r.returncode == 137:
        return {"killed": True}
    for line in r.stdout.splitlines():
        if line.startswith("CHILD "):
            return json.loads(line[6:])
    return {"exc": "child failed: " + (r.stderr or r.stdout)[-400:]}


def replay(sel, args, fn):
    import os
    import shutil
    import tempfile

    root = os.path.dirname(os.path.dirname(os.path.abspath(__file__)))
    d = os.path.realpath(tempfile.mkdtemp(prefix="verif-c06-"))
    try:
        base = {"payload": {"inner": args["pi"], "outer": args["po"]}, "int": os.path.join(d, "x", "int"), "data": os.path.join(d, "y", "data"), "crash_at": None, "torn": 0, "action": "eval"}
        sc = sel["scenario"]
        if sc == "S3":
            base["pid"] = 4242
        tick.PAYLOAD.clear()
        tick.PAYLOAD.update(base["payload"])
        old = None
        if sc in ("S2", "S3"):
            r0 = _child(root, dict(base, version=1))
            if "exc" in r0:
                return {"reproduced": False, "detail": "setup evaluation failed: %r" % r0}
            p1.VERSION = 1
            old = p1.plain()
        ver = 2 if sc in ("S2", "S3") else 1
        p1.VERSION = ver
        new = p1.plain()
        r1 = _child(root, dict(base, version=ver, crash_at=args["crash_at"], torn=args["torn"]))
        if not r1.get("killed"):
            return {"reproduced": False, "detail": "the process completed before operation %d" % args["crash_at"]}
        where = "real OS, process killed (os._exit) at mutating FS op #%d (torn=%d) of scenario %s: " % (args["crash_at"], args["torn"], sc)
        if sc == "S3":
            where += "(pid reuse emulated: os.getpid as seen by dds.store returns the same value in the killed and in the recovering process; recovery evaluates version 3) "
        if sc in ("S2", "S3"):
            rl = _child(root, dict(base, version=ver, action="load"))
            if "exc" in rl:
                return {"reproduced": True, "detail": where + "dds.load of a path committed before the crash fails in a fresh process: %s" % rl["exc"]}
            for (p, v) in zip(("/out", "/d/in"), rl["value"]):
                if not (v == old[p] or v == new[p]):
                    return {"reproduced": True, "detail": where + "dds.load(%s) returns %r (old %r / new %r)" % (p, v, old[p], new[p])}
        if sc == "S3":
            ver = 3
            p1.VERSION = ver
            new = p1.plain()
        r2 = _child(root, dict(base, version=ver))
        if "exc" in r2:
            return {"reproduced": True, "detail": where + "the recovery evaluation fails: %s" % r2["exc"]}
        if r2["value"] != new["/out"]:
            return {"reproduced": True, "detail": where + "the recovery evaluation returns %r instead of %r" % (r2["value"], new["/out"])}
        rl = _child(root, dict(base, version=ver, action="load"))
        if "exc" in rl or rl["value"] != [new["/out"], new["/d/in"]]:
            return {"reproduced": True, "detail": where + "loads after the recovery evaluation: %r, expected %r" % (rl, [new["/out"], new["/d/in"]])}
        r3 = _child(root, dict(base, version=ver))
        if "exc" in r3 or r3["value"] != new["/out"] or r3["log"]:
            return {"reproduced": True, "detail": where + "second recovery evaluation: %r" % (r3,)}
        rl = _child(root, dict(base, version=ver, action="load"))
        if "exc" in rl or rl["value"] != [new["/out"], new["/d/in"]]:
            return {"reproduced": True, "detail": where + "loads after recovery: %r" % (rl,)}
        return {"reproduced": False, "detail": "real OS: recovery is clean"}
    finally:
        shutil.rmtree(d, ignore_errors=True)
