"""
C02 - nothing is recomputed unless something it depends on changed.

Same machinery as C01 (real analysis + evaluation on template programs, symbolic leaves, ideal hash) with two observation
points: the execution log written by the generated code (vlib.tick, not tracked by dds) and the path -> signature map
handed to Store.sync_paths (recording store). The dependency cone is defined in DESIGN.md 4.1.

Queries
  same.*      history (s, s): step 2 executes nothing - in the same process, after a restart, with the entry style switched,
              from a copy of the code in another accepted module.
  revert.*    history (s, s', s): step 3 executes nothing.
  outside.*   an edit outside the cone of a kept node (unrelated variable, unrelated definitions / reordering, a non-accepted
              module's body or variable, a sibling's private dependency): equal signature, not executed.
"""
from vlib import h
from vlib.models import hashmodel
from vlib.templates import T
import harness.C01 as base

h.quiet_logs()

PROPERTY = "C02"
EXPLANATION = "C02: execution log and signatures of kept nodes over histories whose second / third state agrees with an earlier one on the node's dependency cone; values of all tracked variables are solver variables."
STUBBED_NAMES = base.STUBBED_NAMES
ASSUMPTIONS = base.ASSUMPTIONS + ["dependency cone as defined in DESIGN.md 4.1; the execution log lives in a non-accepted module"]
OUTSIDE = base.OUTSIDE
FUNCTIONS_ENCODED = base.FUNCTIONS_ENCODED
BOUNDS = {
    "quick": {"templates": ["T1", "T3", "T4", "T5", "T6", "T7", "T8 (copy in another accepted module)", "T1main"], "histories": "(s, s) with restart / entry-style switch / copied module; (s, s', s); edits outside the cone: unrelated variable, unrelated definitions and reordering, non-accepted body and variable, sibling's private dependency; falsy default reached through eval and keep", "leaves": "all 32-bit ints"},
    "thorough": {"templates": "as quick", "histories": "as quick for every template + leaf types str / list / dict / float / bool / tuple / path on T1"},
}
LAST_DETAIL = [""]

setup_query = base.setup_query
make_fn_base = base.make_fn


def make_fn(fn, sel, tag):
    ps = base._leaf_params(sel)
    return h.gen_fn(tag, "hist", [(n, t) for (n, t, _p) in ps], [p for (_n, _t, p) in ps if p], "harness.C02", "hist_impl")


def _checker(sel):
    sigs = {}

    def on_step(k, step, w, r, p):
        if r[0] != "ok":
            return None  # reported by run_history
        sigs[k] = dict(w.last_sigs() or {})
        exp = step.get("expect") or {}
        log = r[2]
        if exp.get("exec_none") and log:
            return "step %d: nothing changed in any dependency cone, yet dds executed %r" % (k, log)
        for name in exp.get("not_executed", []):
            if name in log:
                return "step %d: %s is outside the cone of the edit, yet it was executed again (log %r)" % (k, name, log)
        for name in exp.get("executed", []):
            if name not in log:
                return "step %d: %s depends on the edit and should have been executed (log %r)" % (k, name, log)
        if "same_sig" in exp:
            j, paths = exp["same_sig"]
            for q in paths:
                if sigs[k].get(q) != sigs[j].get(q):
                    return "step %d: signature of %s changed (%s -> %s) although nothing in its cone changed" % (k, q, str(sigs[j].get(q))[:12], str(sigs[k].get(q))[:12])
        return None

    return on_step


def hist_impl(a):
    h.enter()
    if h.blocked(**a):
        return True
    ok, detail, _w = base.run_history(h.SEL, a, on_step=_checker(h.SEL))
    if not ok and not h.TWIN:
        LAST_DETAIL[0] = detail
    return h.verdict(ok)


def queries(tier):
    q = base._q
    qs = []
    A, B, C, D = ({"tq.m1": v} for v in "abcd")
    NONE = {"exec_none": True}
    # (s, s)
    qs.append(q("same.T1main.restart", "T1main", [{"variants": {"__main__": "a"}}, {"variants": {"__main__": "a"}, "leaves_from": 0, "restart": True, "style": "eval", "expect": NONE}]))
    qs.append(q("outside.T1main.defs", "T1main", [{"variants": {"__main__": "a"}}, {"variants": {"__main__": "c"}, "leaves_from": 0, "expect": {"exec_none": True, "same_sig": [0, ["/t1/f"]]}}]))
    qs.append(q("same.T1.call", "T1", [{"variants": A}, {"variants": A, "leaves_from": 0, "expect": NONE}]))
    qs.append(q("same.T1.restart", "T1", [{"variants": A}, {"variants": A, "leaves_from": 0, "restart": True, "expect": NONE}]))
    qs.append(q("same.T1.call-eval", "T1", [{"variants": A, "style": "call"}, {"variants": A, "leaves_from": 0, "style": "eval", "expect": NONE}]))
    qs.append(q("same.T1.eval-call", "T1", [{"variants": A, "style": "eval"}, {"variants": A, "leaves_from": 0, "style": "call", "restart": True, "expect": NONE}]))
    qs.append(q("same.T5", "T5", [{"variants": A}, {"variants": A, "leaves_from": 0, "expect": NONE}]))
    qs.append(q("same.T6", "T6", [{}, {"leaves_from": 0, "restart": True, "expect": NONE}], timeout=500))
    qs.append(q("same.T7", "T7", [{"variants": A}, {"variants": A, "leaves_from": 0, "expect": NONE}]))
    qs.append(q("same.T3.eval", "T3", [{"variants": A, "style": "eval"}, {"variants": A, "leaves_from": 0, "style": "eval", "expect": NONE}], nargs=True, timeout=500, fixed={"n": [1, 1]}))
    qs.append(q("same.T4.eval", "T4", [{"variants": A, "style": "eval"}, {"variants": A, "leaves_from": 0, "style": "eval", "restart": True, "expect": NONE}], nargs=True, timeout=500, fixed={"G": [0, 0]}))
    # a kept function with a falsy default, reached through dds.eval of its parent and then kept directly (and the other way round)
    Z1 = {"style": "eval", "entry": ["tq.m1", "root0"]}
    Z2 = {"style": "keep", "entry": ["tq.m1", "g0"], "path": "/t3/z"}
    qs.append(q("same.T3.falsy-default.eval-keep", "T3", [dict(Z1), dict(Z2, leaves_from=0, expect={"exec_none": True, "same_sig": [0, ["/t3/z"]]})]))
    qs.append(q("same.T3.falsy-default.keep-eval", "T3", [dict(Z2), dict(Z1, leaves_from=0, expect={"exec_none": True, "same_sig": [0, ["/t3/z"]]})]))
    qs.append(q("same.T11.falsy-results", "T11", [{"style": "eval"}, {"style": "eval", "leaves_from": 0, "expect": NONE}, {"style": "eval", "leaves_from": 0, "restart": True, "expect": NONE}], nargs=True, timeout=600))
    # an edit of the caller is outside the cone of a zero-argument callee and of what that callee keeps
    E15 = {"style": "eval"}
    for v in "bc":
        qs.append(q("outside.T15.caller-edit.%s" % v, "T15", [dict(E15, variants=A), dict(E15, variants={"tq.m1": v}, expect={"not_executed": ["leaf"], "executed": ["top"], "same_sig": [0, ["/t15/mid", "/t15/leaf"]]})]))
    # copy of the code in another accepted module: same values of RATE in both modules
    qs.append({"id": "same.T8.copy", "fn": "hist", "sel": {"template": "T8", "steps": [{"entry": ["tq.m1", "scaled"]}, {"entry": ["tq.m3", "scaled"], "leaves_from": 0, "expect": NONE}], "leaf_type": {}, "nargs": False, "store": "memory", "fixed": {}, "tie": [["tq.m1", "tq.m3", "RATE"]]}, "timeout": 300})
    # (s, s', s)
    qs.append(q("revert.T1.value", "T1", [{"variants": A}, {"variants": A}, {"variants": A, "leaves_from": 0, "expect": NONE}], timeout=500))
    qs.append(q("revert.T1.body", "T1", [{"variants": A}, {"variants": B, "leaves_from": 0}, {"variants": A, "leaves_from": 0, "restart": True, "expect": NONE}], timeout=500))
    # edits outside the cone
    qs.append(q("outside.T1.var", "T1", [{"variants": A}, {"variants": A, "leaves_from": 0, "vary": ["H"], "expect": {"exec_none": True, "same_sig": [0, ["/t1/f"]]}}]))
    qs.append(q("outside.T1.defs", "T1", [{"variants": A}, {"variants": C, "leaves_from": 0, "expect": {"exec_none": True, "same_sig": [0, ["/t1/f"]]}}]))
    qs.append(q("outside.T6.nonaccepted-body", "T6", [{}, {"variants": {"tx.lib": "b"}, "leaves_from": 0, "no_value_check": True, "expect": {"not_executed": ["f", "inner"], "same_sig": [0, ["/t6/f", "/t6/inner"]]}}], timeout=500))
    qs.append(q("outside.T6.nonaccepted-var", "T6", [{}, {"leaves_from": 0, "vary": ["X"], "no_value_check": True, "expect": {"not_executed": ["f", "inner"], "same_sig": [0, ["/t6/f", "/t6/inner"]]}}], timeout=500))
    if tier == "thorough":
        for tn in ("T5", "T6", "T7"):
            qs.append(q("same.%s.restart.eval" % tn, tn, [{"style": "call"}, {"leaves_from": 0, "restart": True, "style": "eval", "expect": NONE}], timeout=900))
            qs.append(q("revert.%s.value" % tn, tn, [{}, {}, {"leaves_from": 0, "restart": True, "expect": NONE}], timeout=1500))
        for lt in ("str", "list", "dict", "float", "bool", "tuple", "path"):
            qs.append(q("same.T1.%s" % lt, "T1", [{"variants": A}, {"variants": A, "leaves_from": 0, "restart": True, "expect": NONE}], {"G": lt}, timeout=900))
            qs.append(q("outside.T1.defs.%s" % lt, "T1", [{"variants": A}, {"variants": C, "leaves_from": 0, "expect": {"exec_none": True, "same_sig": [0, ["/t1/f"]]}}], {"G": lt}, timeout=900))
        qs.append(q("revert.T5.body", "T5", [{"variants": A}, {"variants": B, "leaves_from": 0}, {"variants": A, "leaves_from": 0, "expect": NONE}], timeout=1500))
        qs.append(q("revert.T6.body", "T6", [{}, {"variants": {"tq.m2": "b"}, "leaves_from": 0}, {"variants": {"tq.m2": "a"}, "leaves_from": 0, "restart": True, "expect": NONE}], timeout=1500))
    qs.append(q("outside.T6.sibling", "T6", [{}, {"variants": {"tq.m2": "b"}, "leaves_from": 0, "expect": {"not_executed": ["inner"], "executed": ["f"], "same_sig": [0, ["/t6/inner"]]}}], timeout=500))
    return qs


def functions_encoded():
    return FUNCTIONS_ENCODED


def replay(sel, args, fn):
    import hashlib
    import struct
    import dds.fun_args as fa

    fa.hashlib = hashlib
    fa.struct = struct
    ok, detail, _w = base.run_history(sel, args, on_step=_checker(sel))
    if ok:
        return {"reproduced": False, "detail": "with real SHA-256 the history recomputes nothing it should not"}
    return {"reproduced": True, "detail": "template %s, real hashing: %s" % (sel["template"], detail)}
