"""
C01 - memoized evaluation returns exactly what plain execution would return.

Real code executed symbolically: the whole of dds._api (keep / eval / _eval / _eval_new_ctx), dds.introspect, dds._introspect_indirect,
dds._retrieve_objects, dds.fun_args, dds._annotations, dds._eval_ctx, dds.structures_utils, dds.store.MemoryStore / NoOpStore,
dds._lru_store - on template programs whose source text is concrete and whose tracked module variables, arguments and
history are solver variables, under the ideal-hash model. Oracle: the plain twin of the same sources (vlib.tpl).

Queries  hist.<template>.<leaf type>.<variant history>.<styles>.<store>
"""
from collections import OrderedDict
from pathlib import PurePosixPath

from vlib import h, tick
from vlib.models import hashmodel
from vlib.templates import T
from vlib.world import World

h.quiet_logs()

PROPERTY = "C01"
EXPLANATION = "C01: two- and three-step histories (edits, reverts, restarts, entry-style switches) of template programs; module-variable values and run-time arguments are solver variables; every value returned by dds is compared with the plain twin."
STUBBED_NAMES = hashmodel.STUBBED_NAMES
ASSUMPTIONS = [
    "ideal hash: SHA-256 is collision-free on the preimages involved (interning model) and GF(2)-independent under the XOR combiner",
    "struct model for pack('!l') / pack('!d')",
    "clock stub; logging / exception-message f-strings evaluate to empty strings",
    "documented identifications are not distinguished (a query never asks dds to tell 1 from True, a list from a tuple)",
]
OUTSIDE = [
    "programs outside the template corpus (the solver quantifies over values and histories of each template, not over templates)",
    "local-file and DBFS stores (their codecs are C code; the store protocol is decided by C04 / C06 / C08)",
    "__main__ / notebook placement (thorough tier only where listed)",
    "int leaves beyond 32 bits (the big-int encoding is decided by C05)",
]
FUNCTIONS_ENCODED = ["dds._api.*", "dds.introspect.*", "dds._introspect_indirect.*", "dds._retrieve_objects.*", "dds.fun_args.*", "dds._annotations.*", "dds._eval_ctx.*", "dds.structures_utils.*", "dds.store.MemoryStore.*", "dds.store.NoOpStore.*", "dds._lru_store.*"]
BUDGET_S = {"thorough": 1500}  # wall budget of the thorough tier: queries not started by then are reported as not run
LAST_DETAIL = [""]
BOUNDS = {
    "quick": {"templates": ["T1 (helper + tracked variable)", "T3 (const / default / keyword keeps)", "T4 (run-time argument keep)", "T5 (class, two methods)", "T6 (aliases, second module, non-accepted module)", "T7 (higher-order reference)", "T10 (module-alias variable, multi-line keep, lambda, nested def, dds_function)", "T1main (__main__ placement)"], "history": "2 steps (T1: one 3-step revert)", "leaves": "int: all 32-bit values; str: <= 2 ASCII chars; bool; float: finite reals; list / tuple / dict with one symbolic int; None-or-int; 3 path witnesses", "stores": ["memory", "noop", "cache-wrapped memory"], "entry styles": ["direct call", "dds.eval", "dds.keep"]},
    "thorough": {"templates": "as quick", "history": "2-3 steps with restarts for every leaf type of T1 and for T5 T6 T7 T4", "leaves": "as quick + str <= 3 ASCII, str <= 1 any code point", "stores": "noop and cache-wrapped for T5 T6 T7 too"},
}

LEAF_TYPES = {
    # name -> (parameter list [(suffix, type, precondition template)], builder expression over the parameters)
    "int": ([("i", "int", "-2**31 <= {0} < 2**31")], lambda p: p["i"]),
    "str": ([("s", "str", "len({0}) <= 2 and {0}.isascii()")], lambda p: p["s"]),
    "str3": ([("s", "str", "len({0}) <= 3 and {0}.isascii()")], lambda p: p["s"]),
    "ustr": ([("s", "str", "len({0}) <= 1")], lambda p: p["s"]),
    "bool": ([("b", "bool", None)], lambda p: p["b"]),
    "float": ([("f", "float", "{0} == {0} and -1e9 < {0} < 1e9")], lambda p: p["f"]),
    "list": ([("i", "int", "-2**31 <= {0} < 2**31")], lambda p: [p["i"], 1]),
    "tuple": ([("i", "int", "-2**31 <= {0} < 2**31")], lambda p: (p["i"], 1)),
    "dict": ([("i", "int", "-2**31 <= {0} < 2**31")], lambda p: {"k": p["i"]}),
    "none": ([("b", "bool", None), ("i", "int", "-2**31 <= {0} < 2**31")], lambda p: (None if p["b"] else p["i"])),
    "path": ([("k", "int", "0 <= {0} <= 2")], lambda p: PurePosixPath(["/a", "a/b", "/a//b/../c"][p["k"]])),
}


def setup_query(sel):
    hashmodel.install()
    h.install_clock()


def _leaf_params(sel):
    """[(arg name, type, pre)] for every in-cone leaf and step, plus run-time arguments."""
    t = T[sel["template"]]
    out = []
    for k in range(len(sel["steps"])):
        if "leaves_from" in sel["steps"][k]:
            continue  # this step re-uses the state of an earlier step (same symbolic values)
        seen = set()
        for (mod, var, _typ, cone) in t.leaves:
            if var in seen:
                continue  # the same variable name in a copied module shares the value ("tie")
            seen.add(var)
            if (not cone and k > 0) or var in sel.get("fixed", {}):
                continue  # variables of non-accepted / unread code keep one value over the history; pinned leaves are concrete
            lt = sel.get("leaf_type", {}).get(var, "int")
            for (suf, typ, pre) in LEAF_TYPES[lt][0]:
                n = "%s_%s%d" % (var, suf, k)
                out.append((n, typ, pre.format(n) if pre else None))
        if sel.get("nargs") and "n" not in sel.get("fixed", {}):
            n = "n%d" % k
            out.append((n, "int", "-2**31 <= %s < 2**31" % n))
    for k, step in enumerate(sel["steps"]):
        for var in step.get("vary", []):
            n = "%s_v%d" % (var, k)
            out.append((n, "int", "-2**31 <= %s < 2**31" % n))
    return out


def make_fn(fn, sel, tag):
    ps = _leaf_params(sel)
    return h.gen_fn(tag, "hist", [(n, t) for (n, t, _p) in ps], [p for (_n, _t, p) in ps if p], "harness.C01", "hist_impl")


def _leaf_value(sel, var, k, a):
    if var in sel.get("fixed", {}):
        return sel["fixed"][var][k]
    lt = sel.get("leaf_type", {}).get(var, "int")
    params, build = LEAF_TYPES[lt]
    return build(dict((suf, a["%s_%s%d" % (var, suf, k)]) for (suf, _t, _p) in params))


def run_history(sel, a, on_step=None):
    """Runs the history against dds and the twin. Returns (ok, detail, world)."""
    t = T[sel["template"]]
    hashmodel.MODEL.reset()
    w = World(t, sel.get("store", "memory"), sel["steps"][0].get("variants"))
    for k, step in enumerate(sel["steps"]):
        if step.get("restart"):
            w.start_process()
        w.set_variants(step.get("variants") or {})
        ks = step.get("leaves_from", k)
        for (mod, var, _typ, cone) in t.leaves:
            if var in step.get("vary", []):
                w.set_leaf(mod, var, a["%s_v%d" % (var, k)])  # an out-of-cone variable deliberately changed at this step
            else:
                w.set_leaf(mod, var, _leaf_value(sel, var, ks if cone else 0, a))
        args = ()
        if sel.get("nargs"):
            args = (sel["fixed"]["n"][ks],) if "n" in sel.get("fixed", {}) else (a["n%d" % ks],)
        style = step.get("style", "call")
        r = w.run_real(style, args, entry=tuple(step["entry"]) if step.get("entry") else None, path=step.get("path"))
        if step.get("expect_dds_error"):
            # an ill-formed evaluation: dds must refuse it with a DDS error (never another exception, never a value)
            if r[0] != "dds":
                return (False, "step %d: expected a DDS error, dds returned %r" % (k, r[:2]), w)
            if step.get("expect_no_exec") and tick.LOG:
                return (False, "step %d: rejected, but user code ran first: %r" % (k, list(tick.LOG)), w)
            continue
        p = w.run_plain(args, entry=tuple(step["entry"]) if step.get("entry") else None, path=step.get("path"), style=style if style == "load" else None)
        if on_step is not None:
            res = on_step(k, step, w, r, p)
            if res is not None:
                return (False, res, w)
        if r[0] != "ok":
            return (False, "step %d: dds raised %r" % (k, r[1:]), w)
        if r[1] != p[1] and not step.get("no_value_check"):
            # (steps that edit NON-accepted code are exempt: dds documents that it does not track it)
            return (False, "step %d: dds returned %r, plain execution returns %r" % (k, r[1], p[1]), w)
    return (True, "", w)


def hist_impl(a):
    h.enter()
    if h.blocked(**a):
        return True
    ok, detail, _w = run_history(h.SEL, a)
    if not ok and not h.TWIN:
        LAST_DETAIL[0] = detail
        import os

        if os.environ.get("VERIF_DEBUG"):
            print("DEBUG", detail, flush=True)
    return h.verdict(ok)


def _q(qid, template, steps, leaf_type=None, nargs=False, store="memory", timeout=300, fixed=None):
    return {"id": qid, "fn": "hist", "sel": {"template": template, "steps": steps, "leaf_type": leaf_type or {}, "nargs": nargs, "store": store, "fixed": fixed or {}}, "timeout": timeout}


def queries(tier):
    qs = []
    A, B, C, D = ({"tq.m1": v} for v in "abcd")
    # T1: every leaf type of the tracked variable; value change / edit / revert / restart / entry style
    for lt in ["int", "str", "bool", "float", "list", "tuple", "dict", "none", "path"]:
        qs.append(_q("hist.T1.%s.aa" % lt, "T1", [{"variants": A}, {"variants": A}], {"G": lt}))
    qs.append(_q("hist.T1.int.ab.restart", "T1", [{"variants": A}, {"variants": B, "restart": True}], {"G": "int"}))
    qs.append(_q("hist.T1.int.aba", "T1", [{"variants": A}, {"variants": B}, {"variants": A}], {"G": "int"}, timeout=500))
    qs.append(_q("hist.T1.int.ac.eval", "T1", [{"variants": A, "style": "eval"}, {"variants": C, "style": "call"}], {"G": "int"}))
    qs.append(_q("hist.T1.int.ad.noop", "T1", [{"variants": A}, {"variants": D}], {"G": "int"}, store="noop"))
    qs.append(_q("hist.T1.int.ab.lru", "T1", [{"variants": A}, {"variants": B}], {"G": "int"}, store="lru"))
    # T3: constant / default / keyword arguments;  T4: run-time argument
    E = {"style": "eval"}
    qs.append(_q("hist.T3.aa.G", "T3", [dict(E, variants=A), dict(E, variants=A)], nargs=True, timeout=500, fixed={"n": [1, 1]}))
    for v in "bcd":
        qs.append(_q("hist.T3.a%s" % v, "T3", [dict(E, variants=A), dict(E, variants={"tq.m1": v}, restart=(v == "c"))], nargs=True, timeout=500, fixed={"G": [0, 0], "n": [1, 1]}))
    qs.append(_q("hist.T3.keep", "T3", [{"variants": A, "style": "keep", "entry": ["tq.m1", "g"], "path": "/t3/d"}, {"variants": A, "style": "keep", "entry": ["tq.m1", "g"], "path": "/t3/d"}], nargs=True))
    qs.append(_q("hist.T4.aa.n", "T4", [dict(E, variants=A), dict(E, variants=A)], nargs=True, timeout=500, fixed={"G": [0, 0]}))
    qs.append(_q("hist.T4.aa.G", "T4", [dict(E, variants=A), dict(E, variants=A)], nargs=True, timeout=500, fixed={"n": [1, 1]}))
    qs.append(_q("hist.T4.ab", "T4", [dict(E, variants=A), dict(E, variants=B)], nargs=True, timeout=500, fixed={"G": [0, 0], "n": [1, 1]}))
    # T5: class, variables read in two methods
    qs.append(_q("hist.T5.aa", "T5", [{"variants": A}, {"variants": A}]))
    qs.append(_q("hist.T5.ab", "T5", [{"variants": A}, {"variants": B}]))
    # T6: aliases, second module, non-accepted module
    qs.append(_q("hist.T6.aa", "T6", [{}, {}], timeout=500))
    qs.append(_q("hist.T6.m2b", "T6", [{}, {"variants": {"tq.m2": "b"}}], timeout=500))
    # T7: higher-order reference
    qs.append(_q("hist.T7.aa", "T7", [{"variants": A}, {"variants": A}]))
    qs.append(_q("hist.T7.ab", "T7", [{"variants": A}, {"variants": B}]))
    # T11: None / falsy results, one function kept twice with different run-time arguments
    qs.append(_q("hist.T11.aa", "T11", [dict(E), dict(E)], nargs=True, timeout=600))
    if tier == "thorough":
        qs.append(_q("hist.T11.ab", "T11", [dict(E, variants=A), dict(E, variants=B, restart=True)], nargs=True, timeout=600, fixed={"G": [1, 1]}))
    # the same program living in __main__ (a script): names are resolved through the start module / start globals
    MA, MB = {"__main__": "a"}, {"__main__": "b"}
    qs.append(_q("hist.T1main.int.aa", "T1main", [{"variants": MA}, {"variants": MA}], {"G": "int"}))
    qs.append(_q("hist.T1main.str.ab", "T1main", [{"variants": MA}, {"variants": MB, "style": "eval"}], {"G": "str"}))
    # T10: variable read through a module alias, multi-line keep call with run-time argument, lambda, nested def, dds_function
    F10 = {"L": [1, 1], "Q": [2, 2], "R": [3, 3]}
    for var in (("Q",) if tier == "quick" else ("L", "Q", "R")):
        fx = dict((k, v) for k, v in F10.items() if k != var)
        qs.append(_q("hist.T10.%s" % var, "T10", [{}, {}], timeout=600, fixed=fx))
    for v in ("bd" if tier == "quick" else "bcd"):
        qs.append(_q("hist.T10.a%s" % v, "T10", [{"variants": A}, {"variants": {"tq.m1": v}}], timeout=600, fixed=F10))
    qs.append(_q("hist.T10.ef", "T10", [{"variants": {"tq.m1": "e"}}, {"variants": {"tq.m1": "f"}}], timeout=600, fixed=(F10 if tier == "quick" else {"Q": [2, 2], "R": [3, 3]})))  # indentation-only edit (thorough: L symbolic in both steps)
    if tier == "thorough":
        qs.append(_q("hist.T10.m2b", "T10", [{}, {"variants": {"tq.m2": "b"}, "restart": True}], timeout=600, fixed=F10))
    if tier == "thorough":
        # every leaf type x (edit of a callee, revert, entry-style switch + unrelated edits, restart); longer / non-ASCII strings
        for lt in ["int", "str", "bool", "float", "list", "tuple", "dict", "none", "path", "str3", "ustr"]:
            qs.append(_q("hist.T1.%s.ab" % lt, "T1", [{"variants": A}, {"variants": B}], {"G": lt}, timeout=900))
            qs.append(_q("hist.T1.%s.aba.restart" % lt, "T1", [{"variants": A}, {"variants": B, "restart": True}, {"variants": A, "restart": True}], {"G": lt}, timeout=1500))
            qs.append(_q("hist.T1.%s.ac.eval" % lt, "T1", [{"variants": A, "style": "eval"}, {"variants": C, "style": "call"}, {"variants": D, "style": "eval"}], {"G": lt}, timeout=1500))
        for store in ("noop", "lru"):
            for tn in ("T5", "T6", "T7"):
                qs.append(_q("hist.%s.aa.%s" % (tn, store), tn, [{}, {}], store=store, timeout=900))
        for tn, var in (("T5", "K1"), ("T5", "K2"), ("T6", "G2"), ("T7", "G")):
            for lt in ("str", "list", "bool"):
                qs.append(_q("hist.%s.%s.%s" % (tn, var, lt), tn, [{}, {"restart": True}], {var: lt}, timeout=1500))
        qs.append(_q("hist.T5.aba", "T5", [{"variants": A}, {"variants": B}, {"variants": A}], timeout=1500))
        qs.append(_q("hist.T6.m2.aba", "T6", [{}, {"variants": {"tq.m2": "b"}}, {"variants": {"tq.m2": "a"}, "restart": True}], timeout=1500))
        qs.append(_q("hist.T7.aba", "T7", [{"variants": A}, {"variants": B}, {"variants": A}], timeout=1500))
        qs.append(_q("hist.T4.aba.n", "T4", [dict(E, variants=A), dict(E, variants=B), dict(E, variants=A)], nargs=True, timeout=1800, fixed={"G": [0, 0, 0]}))
    return qs


def functions_encoded():
    return FUNCTIONS_ENCODED


def replay(sel, args, fn):
    """Same history through the public API with the real hashlib / struct (no model)."""
    import hashlib
    import struct
    import dds.fun_args as fa

    fa.hashlib = hashlib
    fa.struct = struct
    ok, detail, _w = run_history(sel, args)
    if ok:
        return {"reproduced": False, "detail": "with real SHA-256 every step returns the plain value"}
    return {"reproduced": True, "detail": "template %s, real hashing: %s" % (sel["template"], detail)}
