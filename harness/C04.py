"""
C04 - a committed path serves the value of the latest evaluation that kept it.

Real code executed symbolically: dds._api (eval / keep / load / _eval / _eval_new_ctx / set_store), dds.structures_utils.all_store_paths,
dds.store.MemoryStore / LocalFileStore (over the file-system model), dds._lru_store, dds.codecs.builtins; the analysis of the concrete
pipeline runs natively (see assumptions). Histories of three evaluations: the code version of every step is a solver variable
(edits, re-keeps, reverts), the blob payload a symbolic string; entry pattern, path shapes, store kind and restarts are selectors.
After every evaluation, every path kept so far must resolve - through dds.load in the same process, through dds.load in a fresh
process over the same store, and for the local store through the file under <data_dir>/<path> - to the value returned by the
latest evaluation that kept it.
"""
from vlib import h, tick
from vlib.models import fsmodel, fastenv

h.quiet_logs()

import dds
import dds._api as api
import dds.store as dstore
import dds._lru_store as lru
from dds.structures import DDSException

import vpipes.p2 as p2

PROPERTY = "C04"
EXPLANATION = "C04: three-step histories (code version per step as solver variable) over path shapes x store kinds; every kept path is read back three ways after every step."
STUBBED_NAMES = fsmodel.STUBBED_NAMES
ASSUMPTIONS = [fastenv.ASSUMPTION, "file-system model = POSIX as validated by the differential self-test of this run", "clock stub"]
OUTSIDE = ["DBFS store (C19)", "paths with empty, '.' or '..' segments (C08)", "more than three evaluations; more than three kept paths"]
FUNCTIONS_ENCODED = ["dds._api.*", "dds.structures_utils.FunctionInteractionsUtils.all_store_paths", "dds.store.MemoryStore.*", "dds.store.LocalFileStore.*", "dds._lru_store.LRUCacheStore.*", "dds.codecs.builtins.StringLocalFileCodec.*"]
SHAPES = {
    "flat": ("/a", "/b", "/c"),
    "shared": ("/d/a", "/d/b", "/d/e/c"),
    "deep": ("/a/b/c/d", "/ab/c", "/a/bc"),
    "deep2": ("/ab/c", "/a/b/c", "/abc"),
    "odd": ("/x y/é", "/x/y", "/x.y/z"),
}
BOUNDS = {"quick": {"history": 3, "versions": "symbolic in {1,2} per step", "payload": "symbolic ASCII str <= 1", "shapes": ["flat", "deep", "deep2"], "stores": ["memory", "local", "lru"]}, "thorough": {"history": 3, "shapes": list(SHAPES), "stores": ["memory", "local", "lru"]}}
BUDGET_S = {"thorough": 900}  # wall budget of the thorough tier: queries not started by then are reported as not run
LAST_DETAIL = [""]
INT_DIR, DATA_DIR = "/s/int", "/s/data"


def selftest():
    return fsmodel.selftest()


def setup_query(sel):
    h.install_clock()
    fastenv.install()


class _Env:
    def __init__(self, kind):
        self.kind = kind
        self.fs = fsmodel.FS()
        fsmodel.install(self.fs)
        self.mem = dstore.MemoryStore() if kind == "memory" else None

    def process(self):
        h.fresh_process()
        dds.accept_module("vpipes")
        if self.kind == "memory":
            api._store_var = self.mem  # a store shared with the other process
        elif self.kind == "local":
            api.set_store("local", INT_DIR, DATA_DIR, None, None, None)
        else:
            api.set_store("local", INT_DIR, DATA_DIR, None, None, 2)


def _load(path):
    try:
        return ("ok", dds.load(path))
    except DDSException as e:
        return ("dds", str(e)[:80])
    except Exception as e:
        return ("exc", type(e).__name__)


def hist_impl(a):
    h.enter()
    if h.blocked(**a):
        return True
    sel = h.SEL
    tick.PAYLOAD.clear()
    tick.PAYLOAD.update({"inner": a["pay"], "outer": "", "side": a["pay"]})
    p2.PA, p2.PB, p2.PC = SHAPES[sel["shape"]]
    env = _Env(sel["store"])
    env.process()
    expected = {}
    ok = True
    for k, entry in enumerate(sel["entries"]):
        v = 1 if a["v%d" % k] == 1 else 2  # a solver decision, then a concrete int for the (native) analysis
        p2.VERSION = v
        if sel["restarts"][k]:
            env.process()
        f = p2.root if entry == "root" else p2.root2
        tick.reset()
        try:
            # "eval": dds.eval of the un-kept root function; "call": the root's dds.keep is itself the top-level evaluation
            r = dds.eval(f) if sel.get("style", "eval") == "eval" else f()
        except DDSException as e:
            LAST_DETAIL[0] = "step %d: dds raised %s" % (k, str(e)[:100])
            ok = False
            break
        finally:
            api._eval_ctx = None
        want = p2.plain(entry)
        top = p2.PA if entry == "root" else p2.PC
        if r != want[top]:
            LAST_DETAIL[0] = "step %d: eval returned %r, plain %r" % (k, r, want[top])
            ok = False
            break
        expected.update(want)
        for mode in ("same", "fresh"):
            saved = None
            if mode == "fresh":
                saved = h.save_process()  # another process looks at the store; the evaluating process lives on
                env.process()
            for (p, val) in expected.items():
                got = _load(p)
                if got != ("ok", val):
                    LAST_DETAIL[0] = "after step %d (versions so far %r): dds.load(%s) in %s process -> %r, the latest evaluation that kept it returned %r" % (k, "?", p, mode, got, val)
                    ok = False
                    break
            if saved is not None:
                h.restore_process(saved)
            if not ok:
                break
        if ok and sel["store"] != "memory":
            for (p, val) in expected.items():
                raw = env.fs.read_file(DATA_DIR + p)
                if raw != val.encode("utf-8"):
                    LAST_DETAIL[0] = "after step %d: file %s%s holds %r, expected %r" % (k, DATA_DIR, p, raw, val)
                    ok = False
                    break
        if not ok:
            break
    return h.verdict(ok)


def make_fn(fn, sel, tag):
    n = len(sel["entries"])
    params = [("v%d" % k, "int") for k in range(n)] + [("pay", "str")]
    pres = ["1 <= v%d <= 2" % k for k in range(n)] + ["len(pay) <= 1 and pay.isascii()"]
    return h.gen_fn(tag, "hist", params, pres, "harness.C04", "hist_impl")


def queries(tier):
    qs = []
    shapes = ["flat", "deep", "deep2"] if tier == "quick" else list(SHAPES)
    patterns = [(["root", "root", "root"], [0, 0, 0]), (["root", "root2", "root"], [0, 1, 0]), (["root2", "root", "root"], [0, 0, 1])]
    if tier == "thorough":
        patterns += [(["root", "root", "root2"], [0, 1, 1]), (["root2", "root2", "root"], [0, 0, 0])]
    for store in ("memory", "local", "lru"):
        for shape in shapes:
            for (entries, restarts) in patterns:
                if tier == "quick" and store == "lru" and shape != "flat":
                    continue
                for style in ("eval", "call"):
                    if tier == "quick" and style == "call" and shape != "flat":
                        continue
                    qs.append({"id": "hist.%s.%s.%s.%s" % (store, shape, "".join("A" if e == "root" else "B" for e in entries) + "".join(str(r) for r in restarts), style), "fn": "hist", "sel": {"store": store, "shape": shape, "entries": entries, "restarts": restarts, "style": style}, "timeout": 400})
    return qs


def functions_encoded():
    return FUNCTIONS_ENCODED


def replay(sel, args, fn):
    """Real OS (temporary directory) for the local stores, real fresh processes are emulated by fresh_process()."""
    import os
    import shutil
    import tempfile

    global INT_DIR, DATA_DIR
    if sel["store"] == "memory":
        h.SEL.clear()
        h.SEL.update(sel)
        setup_query(sel)
        ok = hist_impl(dict(args))
        return {"reproduced": not ok, "detail": LAST_DETAIL[0] if not ok else "memory store: every path serves its latest value"}
    d = os.path.realpath(tempfile.mkdtemp(prefix="verif-c04-"))
    try:
        fsmodel.uninstall()
        h.install_clock()
        tick.PAYLOAD.clear()
        tick.PAYLOAD.update({"inner": args["pay"], "outer": "", "side": args["pay"]})
        p2.PA, p2.PB, p2.PC = SHAPES[sel["shape"]]
        idir, ddir = os.path.join(d, "int"), os.path.join(d, "data")

        def process():
            h.fresh_process()
            dds.accept_module("vpipes")
            api.set_store("local", idir, ddir, None, None, 2 if sel["store"] == "lru" else None)

        process()
        expected = {}
        for k, entry in enumerate(sel["entries"]):
            p2.VERSION = args["v%d" % k]
            if sel["restarts"][k]:
                process()
            f = p2.root if entry == "root" else p2.root2
            r = dds.eval(f) if sel.get("style", "eval") == "eval" else f()
            expected.update(p2.plain(entry))
            for mode in ("same", "fresh"):
                saved = None
                if mode == "fresh":
                    saved = h.save_process()
                    process()
                res = [(p, val, _load(p)) for (p, val) in expected.items()]
                if saved is not None:
                    h.restore_process(saved)
                for (p, val, got) in res:
                    if got != ("ok", val):
                        return {"reproduced": True, "detail": "real local store, versions %r: after step %d dds.load(%s) in %s process -> %r, expected %r" % ([args["v%d" % j] for j in range(k + 1)], k, p, mode, got, val)}
            for (p, val) in expected.items():
                raw = open(ddir + p, "rb").read()
                if raw != val.encode("utf-8"):
                    return {"reproduced": True, "detail": "real local store: file %s holds %r, expected %r" % (ddir + p, raw, val)}
        return {"reproduced": False, "detail": "real local store: every path serves its latest value"}
    finally:
        shutil.rmtree(d, ignore_errors=True)
