"""
C12 - the in-memory object cache is invisible and bounded.

Real code executed symbolically: dds._lru_store.LRUCache / LRUCacheStore, dds.store.MemoryStore,
dds._api.set_store (cache_objects decoding).

Queries
  step.<op>      inductive step: arbitrary pre-state satisfying INV, one operation, answers equal to the
                 bare store, INV and the size bound re-established, one further probe operation answers alike.
  seq<n>.<op0>   bounded sequences from the empty state (validates that INV is reachable and sufficient).
  opt.<kind>     set_store(kind, cache_objects=c) decoding table.
"""
import sys
from collections import OrderedDict
from typing import Optional

from vlib import h

import dds._lru_store as lru
import dds.store as dstore
import dds._api as api
from dds.structures import DDSException

h.quiet_logs()
# logging stub: set_store formats the store into a debug f-string; the repr of a symbolic capacity would
# fork on every digit. Formatting is not the subject of C12.
lru.LRUCacheStore.__repr__ = lambda self: "LRUCacheStore"

PROPERTY = "C12"
KEYS = ["k0", "k1", "k2"]
PATHS = ["/p0", "/p1"]
OPS = ["has", "fetch", "store", "sync", "fpaths", "storefail"]

EXPLANATION = "C12: LRUCacheStore vs bare store in lock step; pre-state, operation, key, capacity and blob values are solver variables."
FUNCTIONS_ENCODED = [
    "dds._lru_store.LRUCache.get", "dds._lru_store.LRUCache.put", "dds._lru_store.LRUCacheStore.has_blob",
    "dds._lru_store.LRUCacheStore.fetch_blob", "dds._lru_store.LRUCacheStore.store_blob", "dds._lru_store.LRUCacheStore.sync_paths",
    "dds._lru_store.LRUCacheStore.fetch_paths", "dds.store.MemoryStore.*", "dds._api.set_store",
]
BOUNDS = {
    "quick": {"keys": 3, "paths": 2, "capacity": "any int >= 1 (symbolic)", "values": "unbounded ints or None per key (symbolic)", "step": "all 38 pre-states over 3 keys (any present subset x any recency order of any cached subset, |cache|<=cap) x 16 path tables x 5 ops x 3 keys, plus a store_blob that the underlying store refuses (OSError)", "sequences": "every sequence of exactly 3 ops (prefixes are checked at every step) from the empty state", "cache_objects": "None, bool, any int, str, float"},
    "thorough": {"order": "the whole quick tier first, then the deeper queries below as far as the wall budget of the tier allows (the evidence lists what was not run)", "keys": 3, "paths": 2, "capacity": "any int >= 1 (symbolic)", "values": "unbounded ints or None per key (symbolic)", "step": "as quick", "sequences": "every sequence of 4 ops from the empty state, partitioned by the first three opcodes", "cache_objects": "None, bool, any int, str, float"},
}
OUTSIDE = ["more than 3 keys / 2 paths", "a key stored with two different values (content-addressed use is assumed)", "inner stores other than MemoryStore in this module (LocalFileStore under the cache is exercised by C04/C16 harnesses)", "weak-reference liveness of evicted objects (the bound is checked on the cache's own table)"]
ASSUMPTIONS = [
    "content-addressed use: a key is only ever stored with one value (Store.store_blob is documented idempotent; dds keys are signatures)",
    "representation invariant INV for the inductive step: every cached key is present in the inner store and the cached object is what the inner store returns; its reachability is validated by the seq queries",
]
STUBBED_NAMES = None
BUDGET_S = {"thorough": 1500}  # wall budget of the thorough tier: queries not started by then are reported as not run
THOROUGH_INCLUDES_QUICK = True  # thorough = the quick queries first, then the deeper ones within the wall budget
LAST_DETAIL = [""]


CACHE_STATES = [[]] + [[a] for a in range(3)] + [[a, b] for a in range(3) for b in range(3) if a != b] + [
    [a, b, c] for a in range(3) for b in range(3) for c in range(3) if len({a, b, c}) == 3
]  # every recency order of every subset of the 3 keys: 16 states


def _vals(ki, v0, v1, v2, nk, no):
    """One fixed value per key. nk: the value of key ki is None; no: the values of the other keys are None."""
    out = []
    for i in range(3):
        if (nk if i == ki else no):
            out.append(None)
        else:
            out.append((v0, v1, v2)[i])
    return out


class _Exc:
    def __init__(self, e):
        self.t = type(e).__name__

    def __eq__(self, o):
        return isinstance(o, _Exc) and o.t == self.t

    def __repr__(self):
        return "raised " + self.t


def _apply(store, op, ki, pi, vals):
    """Apply one operation; returns the observable answer."""
    try:
        if op == 0:
            return bool(store.has_blob(KEYS[ki]))
        if op == 1:
            return store.fetch_blob(KEYS[ki])
        if op == 2:
            store.store_blob(KEYS[ki], vals[ki], None)
            return "stored"
        if op == 3:
            store.sync_paths(OrderedDict([(PATHS[pi], KEYS[ki])]))
            return "synced"
        if op == 4:
            r = store.fetch_paths([PATHS[pi]])
            return list(r.items())
        if op == 5:
            # the underlying store refuses the blob (disk full, value that cannot be serialised ...): the error must come out and
            # the wrapper must keep answering like the bare store
            try:
                store.store_blob(KEYS[ki], vals[ki], None)
            except OSError as e:
                return _Exc(e)
            return "stored"
    except DDSException as e:
        return _Exc(e)
    raise AssertionError("bad op")


class _Refusing(dstore.MemoryStore):
    """MemoryStore whose store_blob fails for the keys in `refuse` (an I/O error of the underlying store)."""

    def __init__(self, refuse=()):
        dstore.MemoryStore.__init__(self)
        self.refuse = set(refuse)

    def store_blob(self, key, blob, codec=None):
        if key in self.refuse:
            raise OSError(28, "No space left on device")
        return dstore.MemoryStore.store_blob(self, key, blob, codec)


def _same(a, b):
    if isinstance(a, _Exc) or isinstance(b, _Exc):
        return isinstance(a, _Exc) and isinstance(b, _Exc) and a == b
    if a is None or b is None:
        return a is None and b is None
    return type(a) == type(b) and a == b


def _build(present, cached, pm0, pm1, cap, vals, refuse=()):
    inner = _Refusing(refuse)
    bare = _Refusing(refuse)
    for i in range(3):
        if (present >> i) & 1:
            inner._cache[KEYS[i]] = vals[i]
            bare._cache[KEYS[i]] = vals[i]
    for (pi, pm) in enumerate((pm0, pm1)):
        if pm >= 0:
            inner._paths[PATHS[pi]] = KEYS[pm]
            bare._paths[PATHS[pi]] = KEYS[pm]
    w = lru.LRUCacheStore(inner, cap)
    for c in cached:
        w._cache._cache[KEYS[c]] = lru.Entry(vals[c])
    return w, inner, bare


def _inv(w, inner, cap):
    table = w._cache._cache
    if len(table) > cap:
        return False
    for k, e in table.items():
        if k not in inner._cache:
            return False
        x = inner._cache[k]
        if not _same(x, e.obj):
            return False
    return True


def step(present: int, cs: int, pm0: int, pm1: int, cap: int, pi: int, v0: int, v1: int, v2: int, nk: bool, no: bool) -> bool:
    """
    pre: 0 <= present < 8
    pre: 0 <= cs < 16
    pre: -1 <= pm0 <= 2 and -1 <= pm1 <= 2
    pre: cap >= 1
    pre: 0 <= pi <= 1
    post: _
    """
    h.enter()
    op = h.SEL["op"]
    ki = h.SEL["ki"]
    if (op < 3 or op == 5) and (pm0 != -1 or pm1 != -1 or pi != 0):
        return True  # the path table is irrelevant to blob operations: pinned
    if op == 4 and ki != 0:
        return True
    if op in (3, 4):
        # path operations never look at blob values, and only at the entry of their own path:
        # values are pinned to ints, the other path is absent or bound to k0
        if nk or no:
            return True
        if (pm1 if pi == 0 else pm0) > 0:
            return True
    cached = CACHE_STATES[cs]
    for c in cached:
        if not ((present >> c) & 1):
            return True  # INV: cached keys are present in the inner store
    if len(cached) > cap:
        return True  # INV: bound
    if h.blocked(present=present, cs=cs, pm0=pm0, pm1=pm1, cap=cap, pi=pi, v0=v0, v1=v1, v2=v2, nk=nk, no=no):
        return True
    vals = _vals(ki, v0, v1, v2, nk, no)
    w, inner, bare = _build(present, cached, pm0, pm1, cap, vals, refuse=([KEYS[ki]] if op == 5 else ()))
    a = _apply(w, op, ki, pi, vals)
    b = _apply(bare, op, ki, pi, vals)
    ok = _same(a, b) and _inv(w, inner, cap) and inner._cache == bare._cache and inner._paths == bare._paths
    if ok and op == 5:
        # probes after the refused store
        ok = _same(_apply(w, 0, ki, 0, vals), _apply(bare, 0, ki, 0, vals)) and _same(_apply(w, 1, ki, 0, vals), _apply(bare, 1, ki, 0, vals))
    return h.verdict(ok)


def _seq(n, cap, ops, kis, pis, vals):
    inner = dstore.MemoryStore()
    bare = dstore.MemoryStore()
    w = lru.LRUCacheStore(inner, cap)
    for j in range(n):
        a = _apply(w, ops[j], kis[j], pis[j], vals)
        b = _apply(bare, ops[j], kis[j], pis[j], vals)
        if not _same(a, b):
            LAST_DETAIL[0] = "step %d: cached=%r bare=%r" % (j, a, b)
            return False
        if len(w._cache._cache) > cap:
            LAST_DETAIL[0] = "step %d: %d objects cached > %d" % (j, len(w._cache._cache), cap)
            return False
    return True


def seq(cap: int, a0: int, a1: int, a2: int, a3: int, b0: int, b1: int, b2: int, b3: int, o2: int, o3: int, v0: int, v1: int, v2: int, nk: bool) -> bool:
    """
    pre: 1 <= cap
    pre: 0 <= o2 <= 4 and 0 <= o3 <= 4
    pre: 0 <= a0 <= 2 and 0 <= a1 <= 2 and 0 <= a2 <= 2 and 0 <= a3 <= 2
    pre: 0 <= b0 <= 1 and 0 <= b1 <= 1 and 0 <= b2 <= 1 and 0 <= b3 <= 1
    post: _
    """
    h.enter()
    n = h.SEL["n"]
    ops = [h.SEL["op0"], h.SEL["op1"], o2, o3]
    if "op2" in h.SEL and o2 != h.SEL["op2"]:
        return True
    kis = [a0, a1, a2, a3]
    pis = [b0, b1, b2, b3]
    if h.SEL.get("pathonly"):
        # only path operations, all on one path
        if o2 < 3 or o3 < 3 or b0 or b1 or b2 or b3:
            return True
    for j in range(4):
        if j >= n and (ops[j] != 0 or kis[j] != 0 or pis[j] != 0):
            return True  # unused trailing positions are pinned
        if ops[j] < 3 and pis[j] != 0:
            return True  # blob operations take no path
        if ops[j] == 4 and kis[j] != 0:
            return True  # fetch_paths takes no key
    if h.blocked(cap=cap, a0=a0, a1=a1, a2=a2, a3=a3, b0=b0, b1=b1, b2=b2, b3=b3, o2=o2, o3=o3, v0=v0, v1=v1, v2=v2, nk=nk):
        return True
    vals = _vals(0, v0, v1, v2, nk, False)  # keys are symmetric: wlog the None-valued key (if any) is k0
    ok = _seq(n, cap, ops, kis, pis, vals)
    return h.verdict(ok)


def _opt_expected(c):
    """Documented table: 0 / False / None => no cache, True => default size, n>0 => n, n<0 => unbounded."""
    if c is None:
        return ("plain", None)
    if isinstance(c, bool):
        return ("lru", lru.default_cache_size) if c else ("plain", None)
    if isinstance(c, int):
        if c == 0:
            return ("plain", None)
        if c > 0:
            return ("lru", c)
        return ("lru", "unbounded")
    return ("error", None)


def _opt_check(c):
    h.fresh_process()
    try:
        api.set_store(h.SEL.get("store", "memory"), None, None, None, None, c)
        got = api._store_var
        if isinstance(got, lru.LRUCacheStore):
            cap = got._cache._capacity
            res = ("lru", cap)
        else:
            res = ("plain", None)
    except DDSException:
        res = ("error", None)
    exp = _opt_expected(c)
    if exp[0] != res[0]:
        return False
    if exp[0] == "lru":
        if exp[1] == "unbounded":
            return res[1] >= 2 ** 31
        return res[1] == exp[1] and isinstance(got._store, dstore.MemoryStore)
    return True


def opt_int(c: int) -> bool:
    """
    post: _
    """
    h.enter()
    return h.verdict(_opt_check(c))


def opt_bool(c: bool) -> bool:
    """
    post: _
    """
    h.enter()
    return h.verdict(_opt_check(c))


def opt_other(k: int, s: str, f: float) -> bool:
    """
    pre: 0 <= k <= 2 and len(s) <= 2
    post: _
    """
    h.enter()
    c = None if k == 0 else (s if k == 1 else f)
    return h.verdict(_opt_check(c))


def queries(tier):
    qs = []
    for op in range(6):
        for ki in range(3):
            if op == 4 and ki != 0:
                continue
            if op == 5 and ki != 0 and tier == "quick":
                continue  # quick: the refused store for one key (the three keys are symmetric)
            qs.append({"id": "step.%s.k%d" % (OPS[op], ki), "fn": "step", "sel": {"op": op, "ki": ki}, "timeout": 300 if tier == "quick" else 900})
    if tier == "quick":
        for op0 in range(5):
            for op1 in range(5):
                qs.append({"id": "seq3.%s.%s" % (OPS[op0], OPS[op1]), "fn": "seq", "sel": {"n": 3, "op0": op0, "op1": op1}, "timeout": 300})
    else:
        for op0 in range(5):
            for op1 in range(5):
                for op2 in range(5):
                    qs.append({"id": "seq4.%s.%s.%s" % (OPS[op0], OPS[op1], OPS[op2]), "fn": "seq", "sel": {"n": 4, "op0": op0, "op1": op1, "op2": op2}, "timeout": 1500})
    # commit histories of one path: sync / fetch_paths only, 4 operations (overwrite, revert, read)
    qs.append({"id": "pathseq4", "fn": "seq", "sel": {"n": 4, "op0": 3, "op1": 3, "pathonly": True}, "timeout": 600})
    qs.append({"id": "opt.int", "fn": "opt_int", "sel": {}, "timeout": 60})
    qs.append({"id": "opt.bool", "fn": "opt_bool", "sel": {}, "timeout": 60})
    qs.append({"id": "opt.other", "fn": "opt_other", "sel": {}, "timeout": 60})
    return qs


def functions_encoded():
    return FUNCTIONS_ENCODED


# ---------------------------------------------------------------------------
# replay against the real classes through their public operations only


def replay(sel, args, fn):
    if fn == "step":
        a = args
        ki = sel["ki"]
        vals = _vals(ki, a["v0"], a["v1"], a["v2"], a["nk"], a["no"])
        inner = _Refusing()
        bare = _Refusing()
        cap = a["cap"]
        w = lru.LRUCacheStore(inner, cap)
        log = []
        # the pre-state is reached through public operations only
        for i in range(3):
            if (a["present"] >> i) & 1:
                w.store_blob(KEYS[i], vals[i], None)
                bare.store_blob(KEYS[i], vals[i], None)
                log.append("store %s=%r" % (KEYS[i], vals[i]))
        for (pi, pm) in enumerate((a["pm0"], a["pm1"])):
            if pm >= 0:
                w.sync_paths(OrderedDict([(PATHS[pi], KEYS[pm])]))
                bare.sync_paths(OrderedDict([(PATHS[pi], KEYS[pm])]))
        for c in CACHE_STATES[a["cs"]]:
            w.fetch_blob(KEYS[c])
            bare.fetch_blob(KEYS[c])
            log.append("fetch %s" % KEYS[c])
        # the step, then two rounds of read-only probes (has / fetch on every key, fetch_paths on every path)
        probes = [(o, k, 0) for o in (0, 1) for k in range(3)] + [(4, 0, 0), (4, 0, 1)]
        seq_ops = [(sel["op"], ki, a["pi"])] + probes + probes
        if sel["op"] == 5:
            # the refusal only applies to the step itself (the pre-state above was built with a working store)
            inner.refuse = {KEYS[ki]}
            bare.refuse = {KEYS[ki]}
        for (o, k, p) in seq_ops:
            x = _apply(w, o, k, p, vals)
            y = _apply(bare, o, k, p, vals)
            log.append("%s %s/%s -> cached:%r bare:%r" % (OPS[o], KEYS[k], PATHS[p], x, y))
            if not _same(x, y):
                return {"reproduced": True, "detail": "LRUCacheStore(MemoryStore, %d) differs from bare MemoryStore after: %s" % (cap, "; ".join(log))}
            if len(w._cache._cache) > cap:
                return {"reproduced": True, "detail": "cache holds %d > %d objects after: %s" % (len(w._cache._cache), cap, "; ".join(log))}
        return {"reproduced": False, "detail": "no observable difference on real classes: " + "; ".join(log[-6:])}
    return None
