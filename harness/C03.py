"""
C03 - signatures depend only on program content, never on the environment.

Real code executed symbolically: as C01 (whole analysis + evaluation on template programs, symbolic leaves, ideal hash).

Queries
  env.<template>...   self-composition: the same program state is analysed twice in one path under two independent
                      environment valuations - object identities (id() inside dds returns unrelated symbolic numbers), on-"disk"
                      location of the modules (different file names / code objects), store kind, extra_debug on/off, graph export
                      on/off, a fresh process vs a process that evaluated other states / other programs before - and the path ->
                      signature maps must be equal.
  ref.<template>...   differential against /verif/ref/dds_ref, a frozen copy of the library at the recorded baseline: for every value
                      of the symbolic leaves both libraries assign the same signature to every kept path under one shared interning
                      table (equal tokens = equal preimage transcripts = byte-identical SHA-256 signatures).
  pinned              the hash-model assumption itself: the corpus analysed natively with the real hashlib reproduces
                      /verif/pinned/corpus_sigs.json byte for byte (concrete validation of the stub; the quantified claim is ref.*).
"""
import json
import os
import sys

from vlib import h, tick
from vlib.models import hashmodel
from vlib.templates import T
from vlib.world import World, RecordingStore
import harness.C01 as base

h.quiet_logs()

import dds
import dds._api as api
import dds.introspect as intro
import dds.structures_utils as su
import dds.store as dstore

ROOT = os.path.dirname(os.path.dirname(os.path.abspath(__file__)))
PROPERTY = "C03"
EXPLANATION = "C03: non-interference by self-composition (two environment valuations in one path) and differential execution against a frozen reference copy of the library, on template programs with symbolic leaves."
STUBBED_NAMES = dict(hashmodel.STUBBED_NAMES, **{"id()": ["dds.introspect", "dds.structures_utils", "dds.codecs.databricks"], "hash()": []})
ASSUMPTIONS = base.ASSUMPTIONS + ["the two runs use different working directories", "id() inside dds.introspect / dds.structures_utils returns disjoint sets of numbers in the two runs (concrete: symbolic identities are realised as soon as dds puts them in a set)", "the frozen reference /verif/ref/dds_ref is the library at the commit recorded in /verif/ref/FROZEN_AT"]
OUTSIDE = base.OUTSIDE + ["real PYTHONHASHSEED values / set iteration order (dds sorts every set it iterates today; a change that iterates a set unsorted is caught only if it shows as a different signature in this process)", "real separate interpreters and working directories (exercised in replay only)"]
FUNCTIONS_ENCODED = base.FUNCTIONS_ENCODED + ["dds._plotting.* (export on)", "dds_ref.* (frozen reference)"]
BOUNDS = {
    "quick": {"env": "T1 (int / str / list / path leaves) T5 T6 T7 T8: run A fresh process, memory store, cwd /, extra_debug off; run B disjoint object identities, other cwd, cache-wrapped store, extra_debug on, preceded by another state of the program, edited code and a name-clashing program; graph export on for T1 / T6", "ref": "T1 T5 T6 T7 T8 + T1 with str / bool / float / list / tuple / dict / path leaves vs the frozen reference", "pinned": "native run, real SHA-256"},
    "thorough": {"env": "as quick + bool / float / tuple / dict / none / str3 / non-ASCII leaves on T1, str / list / path leaves on T5 T6 T7 T8", "ref": "as quick + the same leaf types on T5..T8"},
}
BUDGET_S = {"thorough": 1320}  # wall budget of the thorough tier: queries not started by then are reported as not run
LAST_DETAIL = [""]


def setup_query(sel):
    hashmodel.install()
    h.install_clock()
    # rendering (pydot -> graphviz subprocess, file write) runs untraced; the graph itself is C18's subject
    from vlib.models import fastenv
    import dds._plotting as plotting

    if not hasattr(plotting.draw_graph, "__wrapped__"):
        plotting.draw_graph = fastenv._native(plotting.draw_graph)
    sys.path.insert(0, os.path.join(ROOT, "ref"))


class _Ids:
    def __init__(self, base):
        self.base = base
        self.n = 0
        self.map = {}

    def __call__(self, obj):
        k = id(obj)
        if k not in self.map:
            self.n += 1
            self.map[k] = self.base + 16 * self.n
        return self.map[k]


def _set_ids(base):
    f = _Ids(base)
    intro.id = f
    su.id = f


def _analyse(sel, a, k_leaves, env, other_first=False):
    """Evaluates the template in state `k_leaves` under environment `env`; returns the path -> signature map."""
    t = T[sel["template"]]
    w = World(t, env.get("store", "memory"), sel.get("variants"))
    _set_ids(env["idbase"])
    os.chdir(env.get("cwd", "/"))
    dds.set_option("extra_debug", bool(env.get("extra_debug")))
    if other_first:
        # the same process has evaluated other states (and edited code) before
        for (mod, var, _typ, cone) in t.leaves:
            w.set_leaf(mod, var, base._leaf_value(sel, var, 1 if cone else 0, a))
        if sel.get("other_variants"):
            w.set_variants(sel["other_variants"])
        w.run_real(sel.get("style", "call"), ())
        # ... and another program that uses the same names for other kinds of objects
        w.run_real("call", (), entry=("tq.zclash", "clash_p"))
        if sel.get("other_variants"):
            w.set_variants(sel.get("variants") or dict((m, "a") for m in t.modules))
    for (mod, var, _typ, cone) in t.leaves:
        w.set_leaf(mod, var, base._leaf_value(sel, var, k_leaves if cone else 0, a))
    kw = {}
    if env.get("export"):
        kw["dds_export_graph"] = os.path.join(os.environ.get("VERIF_SCRATCH", "/tmp"), "g_%d.dot" % os.getpid())
    r = w.run_real("eval" if (env.get("export") or env.get("eval")) else sel.get("style", "call"), (), **kw)
    if r[0] != "ok":
        return None, "dds raised %r" % (r[1:],)
    return dict(w.last_sigs() or {}), None


def env_impl(a):
    h.enter()
    if h.blocked(**a):
        return True
    sel = h.SEL
    hashmodel.MODEL.reset()
    sA, errA = _analyse(sel, a, 0, {"idbase": 1000, "store": "memory", "extra_debug": False})
    sB, errB = _analyse(sel, a, 0, {"idbase": 7000000, "cwd": os.environ.get("VERIF_SCRATCH", "/tmp"), "store": sel.get("storeB", "lru"), "extra_debug": True, "export": sel.get("export", False), "eval": sel.get("evalB", False)}, other_first=sel.get("other_first", False))
    ok = errA is None and errB is None and sA == sB
    if not ok and not h.TWIN:
        LAST_DETAIL[0] = "signatures differ between the two environments: %r vs %r (%s %s)" % (_short(sA), _short(sB), errA, errB)
        if os.environ.get("VERIF_DEBUG"):
            print("DEBUG", LAST_DETAIL[0], flush=True)
    return h.verdict(ok)


def _short(s):
    return None if s is None else dict((k, str(v)[:10]) for k, v in s.items())


def _ref_analyse(sel, a, k_leaves):
    """The same evaluation through the frozen reference library."""
    import dds_ref
    import dds_ref._api as rapi
    import dds_ref.fun_args as rfa
    import dds_ref.introspect as rintro
    import dds_ref.store as rstore
    import dds_ref._global_ctx as rgc

    rfa.hashlib = hashmodel.MODEL
    rfa.struct = hashmodel.STRUCT
    rapi._time = lambda: 0.0
    t = T[sel["template"]]
    w = World(t, "memory", sel.get("variants"))
    for (mod, var, _typ, cone) in t.leaves:
        w.set_leaf(mod, var, base._leaf_value(sel, var, k_leaves if cone else 0, a))
    # reference process state
    rapi._eval_ctx = None
    rintro._global_context = rgc.GlobalContext()
    for p in t.accepted:
        rintro._accepted_packages.add(p)

    class Rec(rstore.Store):
        def __init__(self):
            self.inner = rstore.MemoryStore()
            self.synced = []

        def has_blob(self, k):
            return self.inner.has_blob(k)

        def fetch_blob(self, k):
            return self.inner.fetch_blob(k)

        def store_blob(self, k, b, codec=None):
            return self.inner.store_blob(k, b, codec)

        def sync_paths(self, paths):
            self.synced.append(dict(paths))
            return self.inner.sync_paths(paths)

        def fetch_paths(self, paths):
            return self.inner.fetch_paths(paths)

    rec = Rec()
    rapi._store_var = rec
    mod, fn = t.entry
    f = w.real.mods[mod].__dict__[fn]
    f = getattr(f, "__wrapped__", f)
    try:
        # evaluate through the reference library: the entry function is kept at its own path if it is a data function
        path = sel.get("entry_path")
        if path:
            rapi.keep(path, f)
        else:
            rapi.eval(f, (), {}, None, None, None)
    except rapi.DDSException as e:
        return None, "reference raised %s" % str(e)[:100]
    finally:
        rapi._eval_ctx = None
    return (rec.synced[-1] if rec.synced else {}), None


def ref_impl(a):
    h.enter()
    if h.blocked(**a):
        return True
    sel = h.SEL
    hashmodel.MODEL.reset()
    sR, errR = _ref_analyse(sel, a, 0)
    _set_ids(1000)
    t = T[sel["template"]]
    w = World(t, "memory", sel.get("variants"))
    for (mod, var, _typ, cone) in t.leaves:
        w.set_leaf(mod, var, base._leaf_value(sel, var, 0, a))
    mod, fn = t.entry
    f = w.real.mods[mod].__dict__[fn]
    f = getattr(f, "__wrapped__", f)
    try:
        if sel.get("entry_path"):
            dds.keep(sel["entry_path"], f)
        else:
            dds.eval(f)
        sC, errC = dict(w.last_sigs() or {}), None
    except dds.DDSException as e:
        sC, errC = None, str(e)[:100]
    finally:
        api._eval_ctx = None
    if errR is not None:
        return True  # the reference does not evaluate this state: nothing pinned
    ok = errC is None and sC == sR
    if not ok and not h.TWIN:
        LAST_DETAIL[0] = "current library %r vs frozen reference %r (%s)" % (_short(sC), _short(sR), errC)
    return h.verdict(ok)


def make_fn(fn, sel, tag):
    s2 = dict(sel)
    s2["steps"] = [{}, {}] if (fn == "env" and sel.get("other_first")) else [{}]
    ps = base._leaf_params(s2)
    params = [(n, t) for (n, t, _p) in ps]
    pres = [p for (_n, _t, p) in ps if p]
    return h.gen_fn(tag, fn, params, pres, "harness.C03", fn + "_impl")


ENTRY_PATHS = {"T1": "/t1/f", "T5": "/t5/f", "T6": "/t6/f", "T7": "/t7/f", "T8": "/t8/scaled"}


def queries(tier):
    qs = []

    def q(qid, fn, template, timeout=300, **sel):
        s = {"template": template, "leaf_type": {}, "fixed": {}, "nargs": False}
        s.update(sel)
        qs.append({"id": qid, "fn": fn, "sel": s, "timeout": timeout})

    for lt in ("int", "str", "list", "path"):
        q("env.T1.%s" % lt, "env", "T1", leaf_type={"G": lt}, other_first=True, other_variants={"tq.m1": "b"})
    q("env.T1.export", "env", "T1", export=True, storeB="memory", fixed={"G": [3]})
    q("env.T5", "env", "T5", other_first=True, other_variants={"tq.m1": "b"})
    q("env.T6", "env", "T6", other_first=True, other_variants={"tq.m2": "b"}, timeout=500)
    q("env.T6.export", "env", "T6", export=True, timeout=500, fixed={"G2": [3]})
    q("env.T7", "env", "T7", other_first=True)
    q("env.T8", "env", "T8", other_first=True, evalB=True)
    for tn in ("T1", "T5", "T6", "T7", "T8"):
        q("ref.%s" % tn, "ref", tn, entry_path=ENTRY_PATHS[tn], timeout=400)
    for lt in ("str", "bool", "float", "list", "tuple", "dict", "path"):
        q("ref.T1.%s" % lt, "ref", "T1", entry_path="/t1/f", leaf_type={"G": lt})
    if tier == "thorough":
        for lt in ("bool", "float", "tuple", "dict", "none", "str3", "ustr"):
            q("env.T1.%s" % lt, "env", "T1", leaf_type={"G": lt}, other_first=True, other_variants={"tq.m1": "b"}, timeout=900)
        for tn, var in (("T5", "K2"), ("T6", "G2"), ("T7", "G"), ("T8", "RATE")):
            for lt in ("str", "list", "path"):
                q("env.%s.%s" % (tn, lt), "env", tn, leaf_type={var: lt}, other_first=True, timeout=1200)
                q("ref.%s.%s" % (tn, lt), "ref", tn, entry_path=ENTRY_PATHS[tn], leaf_type={var: lt}, timeout=900)
    qs.append({"id": "pinned", "fn": "pinned_query", "kind": "z3", "sel": {}, "timeout": 120, "no_twin": True})
    return qs


# ---------------------------------------------------------------------------
# pinned corpus: native run with the real hashlib (validates the hash-model assumption)

PIN_FILE = os.path.join(ROOT, "pinned", "corpus_sigs.json")
PIN_VALUES = {"int": [0, 7, -3], "str": ["", "ab"], "bool": [True], "float": [1.5], "list": [[1, 2]], "tuple": [(1, 2)], "dict": [{"k": 1}], "path": ["a/b", "/a//b/../c"]}


def _pin_compute():
    import hashlib
    import struct
    import dds.fun_args as fa

    fa.hashlib = hashlib
    fa.struct = struct
    out = {}
    for tn in ENTRY_PATHS:
        t = T[tn]
        for lt, vals in PIN_VALUES.items():
            if tn != "T1" and lt != "int":
                continue
            for v in vals:
                w = World(t, "memory")
                from pathlib import PurePosixPath

                vv = PurePosixPath(v) if lt == "path" else v
                for (mod, var, _typ, cone) in t.leaves:
                    w.set_leaf(mod, var, vv if cone else 0)
                mod, fn = t.entry
                f = getattr(w.real.mods[mod].__dict__[fn], "__wrapped__", w.real.mods[mod].__dict__[fn])
                dds.keep(ENTRY_PATHS[tn], f)
                out["%s|%s|%r" % (tn, lt, v)] = dict(w.last_sigs())
    return out


def pinned_query(sel, twin, blocks, timeout, block_args=None):
    got = _pin_compute()
    want = json.load(open(PIN_FILE))
    bad = [k for k in want if got.get(k) != want[k]]
    if bad:
        return {"state": "REFUTED", "message": "pinned signatures changed", "args": {"case": bad[0], "pinned": want[bad[0]], "now": got.get(bad[0])}, "paths": len(want)}
    return {"state": "CONFIRMED", "message": "%d pinned program states reproduce their signatures byte for byte" % len(want), "args": None, "paths": len(want)}


def functions_encoded():
    return FUNCTIONS_ENCODED


def replay(sel, args, fn):
    import hashlib
    import struct
    import dds.fun_args as fa

    if fn == "pinned_query":
        return {"reproduced": True, "detail": "pinned signature of %s changed: %r -> %r (real SHA-256, native run)" % (args["case"], args["pinned"], args["now"])}
    hashmodel.MODEL.reset()
    # the two analyses are re-run concretely under the model (tokens stand for preimage transcripts); a real two-interpreter
    # replay of the kept signatures follows for env.* queries
    setup_query(sel)
    h.SEL.clear()
    h.SEL.update(sel)
    ok = (env_impl if fn == "env" else ref_impl)(dict(args))
    if ok:
        return {"reproduced": False, "detail": "concrete re-execution: signatures agree"}
    return {"reproduced": True, "detail": LAST_DETAIL[0]}


if __name__ == "__main__" and "--pin" in sys.argv:
    os.makedirs(os.path.dirname(PIN_FILE), exist_ok=True)
    json.dump(_pin_compute(), open(PIN_FILE, "w"), indent=1, sort_keys=True)
    print("pinned", PIN_FILE)
